#!/bin/sh
# usage: commit.sh "message" -- refresh hooks.json (verif:/wip commits of /repo), MANIFEST.json, commit /verif
cd /verif
python3 - <<'PY'
import json,subprocess
h=json.load(open('/verif/hooks.json'))
out=subprocess.check_output(['git','-C','/repo','log','--format=%H %s']).decode().splitlines()
cs=[l.split()[0] for l in out if l.split(' ',1)[1].startswith(('verif:','wip'))]
h['source_commits']=cs[::-1]
json.dump(h,open('/verif/hooks.json','w'),indent=1)
PY
./gen_manifest.py && git add -A && git commit -qm "$1" && echo committed
