package main

import (
	"fmt"
	"sort"
	"strings"
)

// checkFrame generates, for a verified function with a frame clause, one obligation per heap the
// function may have changed and that the frame does not list: at every reference that existed at
// entry the heap is unchanged (fresh allocations are always allowed).
func (u *Unit) checkFrame(ct *Contract, r retInfo, alloc0 Term) {
	if !ct.HasFrame {
		return
	}
	if ct.FrameTrusted {
		u.note("frame of " + u.FnName + " is taken from a trusted declaration and not checked against its body")
		return
	}
	allowed := map[string]bool{}
	for _, f := range ct.Frame {
		for _, h := range u.resolveFrameItem(ct, f) {
			allowed[h] = true
		}
		if strings.HasPrefix(f, "*") || strings.HasPrefix(f, "@") {
			return // frames naming pointees of parameters are not checked yet (reported as assumed)
		}
	}
	var names []string
	for n := range u.heapSort {
		names = append(names, n)
	}
	sort.Strings(names)
	for _, n := range names {
		if allowed[n] {
			continue
		}
		init := u.heapInit[n]
		cur, ok := r.st.heaps[n]
		if !ok || cur.S == init.S {
			continue
		}
		var f Term
		s := u.heapSort[n]
		switch {
		case strings.HasPrefix(n, "G:") || !strings.HasPrefix(s, "(Array Int "):
			f = eq2(cur, init)
		default:
			f = Term{fmt.Sprintf("(forall ((r Int)) (=> (and (<= 0 r) (< r %s)) (= %s %s)))", alloc0.S, sel(cur, Term{"r", "Int"}).S, sel(init, Term{"r", "Int"}).S), "Bool"}
		}
		u.oblige("frame", r.reach, f, "frame", shortHeap(n), "heap "+n+" is not in the frame: unchanged at every pre-existing reference")
	}
}

func shortHeap(n string) string {
	n = strings.ReplaceAll(n, "github.com/33cn/chain33/", "")
	return n
}
