package main

import (
	"go/token"
	"go/types"

	"golang.org/x/tools/go/ssa"
)

// A `go` statement is abstracted: the spawned function may change the heap arbitrarily. It cannot,
// however, touch the local variables of the spawning function that it does not capture, nor the
// captured ones it never assigns: those keep their values. (Captured variables the closure assigns
// become unknown - this is what makes the sequential view of the parent sound with respect to the
// child's writes to shared locals.)

type boxedLocal struct {
	alloc *ssa.Alloc
	ref   Term
}

// closureWrites: the free variables (captured locals) that fn or a closure it creates stores to.
func closureWrites(fn *ssa.Function, seen map[*ssa.Function]bool, out map[*ssa.FreeVar]bool) {
	if fn == nil || seen[fn] {
		return
	}
	seen[fn] = true
	for _, b := range fn.Blocks {
		for _, in := range b.Instrs {
			switch i := in.(type) {
			case *ssa.Store:
				if fv, ok := i.Addr.(*ssa.FreeVar); ok {
					out[fv] = true
				}
			case *ssa.MakeClosure:
				inner, _ := i.Fn.(*ssa.Function)
				innerW := map[*ssa.FreeVar]bool{}
				closureWrites(inner, seen, innerW)
				// map the inner closure's free variables back to what they are bound to here
				for k, fv := range inner.FreeVars {
					if innerW[fv] && k < len(i.Bindings) {
						if ofv, ok := i.Bindings[k].(*ssa.FreeVar); ok {
							out[ofv] = true
						}
					}
				}
			case ssa.CallInstruction:
				// passing the address of a captured variable on: assume written
				for _, a := range i.Common().Args {
					if fv, ok := a.(*ssa.FreeVar); ok {
						out[fv] = true
					}
				}
			}
		}
	}
}

func (u *Unit) execGo(fr *Frame, g *ssa.Go, st *State) {
	u.note("go statement: the spawned call is abstracted (arbitrary heap effects, except on locals of the spawning function it does not assign); sequential view")
	written := map[*ssa.Alloc]bool{}
	known := false
	if mc, ok := g.Call.Value.(*ssa.MakeClosure); ok {
		if fn, ok := mc.Fn.(*ssa.Function); ok {
			known = true
			w := map[*ssa.FreeVar]bool{}
			closureWrites(fn, map[*ssa.Function]bool{}, w)
			for k, fv := range fn.FreeVars {
				if w[fv] && k < len(mc.Bindings) {
					if al, ok := mc.Bindings[k].(*ssa.Alloc); ok {
						written[al] = true
					}
				}
			}
		}
	}
	if fr.goWritten == nil {
		fr.goWritten = map[*ssa.Alloc]bool{}
	}
	for al := range written {
		fr.goWritten[al] = true
	}
	if !known {
		fr.goUnknown = true
	} else {
		mc := g.Call.Value.(*ssa.MakeClosure)
		fn := mc.Fn.(*ssa.Function)
		all, heaps := u.closureEffect(fr, fn, map[*ssa.Function]bool{})
		if all {
			fr.goAll = true
		}
		if fr.goHeaps == nil {
			fr.goHeaps = map[string]bool{}
		}
		for _, h := range heaps {
			fr.goHeaps[h] = true
		}
	}
	u.havocConcurrent(fr, st, "go")
}

// closureEffect: which heaps a spawned closure may write (all = anything).
func (u *Unit) closureEffect(fr *Frame, fn *ssa.Function, seen map[*ssa.Function]bool) (all bool, heaps []string) {
	if fn == nil || seen[fn] {
		return false, nil
	}
	seen[fn] = true
	cset := map[*Cell]bool{}
	hset := map[string]bool{}
	tmp := &Frame{fn: fn, cells: map[*ssa.Alloc]*Cell{}}
	for _, b := range fn.Blocks {
		for _, in := range b.Instrs {
			switch i := in.(type) {
			case *ssa.Store:
				if _, isFV := i.Addr.(*ssa.FreeVar); isFV {
					continue // captured local: handled through goWritten
				}
				u.classifyWrite(tmp, i.Addr, cset, hset, &all)
			case *ssa.MapUpdate:
				all = true
			case *ssa.MakeClosure:
				if inner, ok := i.Fn.(*ssa.Function); ok {
					a, hs := u.closureEffect(fr, inner, seen)
					all = all || a
					for _, h := range hs {
						hset[h] = true
					}
				}
			case ssa.CallInstruction:
				c := i.Common()
				if _, isDefer := in.(*ssa.Defer); isDefer && isNoopCall(u, c) {
					continue
				}
				switch u.callEffect(fr, c) {
				case effAll:
					// calling a closure created in place is covered by MakeClosure above
					if _, isMC := c.Value.(*ssa.MakeClosure); !isMC {
						all = true
					}
				case effNone:
				default:
					for _, h := range u.callFrameHeaps(fr, c) {
						hset[h] = true
					}
				}
			}
		}
	}
	for h := range hset {
		heaps = append(heaps, h)
	}
	return
}

// havocConcurrent: arbitrary heap effects of the goroutines this activation has spawned (at a go
// statement, a channel receive or a select). Local variables they cannot assign keep their values.
func (u *Unit) havocConcurrent(fr *Frame, st *State, why string) {
	type saved struct {
		l *Loc
		v Val
	}
	var keep []saved
	if !fr.goUnknown {
		for _, bl := range fr.boxed {
			if fr.goWritten[bl.alloc] {
				continue
			}
			l := u.pointerLoc(st, Val{T: bl.ref}, bl.alloc.Type())
			if l.Kind == LOpaque {
				continue
			}
			keep = append(keep, saved{l, u.load(st, l)})
		}
	}
	if fr.goUnknown || fr.goAll {
		u.havocHeaps(st, nil, why)
	} else {
		var hs []string
		for h := range fr.goHeaps {
			hs = append(hs, h)
		}
		sortStrings(hs)
		// captured locals the goroutines assign live in box heaps
		for al := range fr.goWritten {
			hs = append(hs, "B:"+u.typeKey(al.Type().Underlying().(*types.Pointer).Elem()))
		}
		if len(hs) > 0 {
			u.havocHeaps(st, hs, why)
		}
	}
	for _, s := range keep {
		v := s.v
		if v.T.S != "" {
			v.T = u.def(v.T)
		}
		u.store(st, s.l, v)
	}
}

// privateBox: the address of this escaping local is known only to closures created in the same
// function that are deferred or called directly there (never stored or passed on): no callee can
// reach the variable.
func privateBox(a *ssa.Alloc) bool {
	refs := a.Referrers()
	if refs == nil {
		return true
	}
	for _, r := range *refs {
		switch i := r.(type) {
		case *ssa.Store:
			if i.Val == ssa.Value(a) {
				return false
			}
		case *ssa.UnOp:
			if i.Op != token.MUL {
				return false
			}
		case *ssa.DebugRef:
		case *ssa.MakeClosure:
			mrefs := i.Referrers()
			if mrefs == nil {
				continue
			}
			for _, mr := range *mrefs {
				switch m := mr.(type) {
				case *ssa.Defer:
					if m.Call.Value != ssa.Value(i) {
						return false
					}
				case *ssa.Call:
					if m.Call.Value != ssa.Value(i) {
						return false
					}
				case *ssa.DebugRef:
				default:
					return false
				}
			}
		default:
			return false
		}
	}
	return true
}

// havocAllCall: arbitrary heap effects of a call; local variables no callee can reach keep their values.
func (u *Unit) havocAllCall(fr *Frame, st *State, why string) {
	type saved struct {
		l *Loc
		v Val
	}
	var keep []saved
	for f := fr; f != nil; f = f.parent {
		for _, bl := range f.boxed {
			if !privateBox(bl.alloc) {
				continue
			}
			l := u.pointerLoc(st, Val{T: bl.ref}, bl.alloc.Type())
			if l.Kind == LOpaque {
				continue
			}
			keep = append(keep, saved{l, u.load(st, l)})
		}
	}
	u.havocHeaps(st, nil, why)
	for _, s := range keep {
		v := s.v
		if v.T.S != "" {
			v.T = u.def(v.T)
		}
		u.store(st, s.l, v)
	}
}
