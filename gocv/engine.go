package main

import (
	"fmt"
	"go/types"
	"os"
	"sort"
	"strings"
	"sync/atomic"

	"golang.org/x/tools/go/ssa"
)

// ---- values and locations -----------------------------------------------------------------------

type LocKind int

const (
	LCell   LocKind = iota // non-escaping local variable
	LField                 // field of a struct reached through a pointer term
	LElem                  // element of a slice backing array
	LBox                   // *T for non-struct T (or opaque struct) in the heap
	LStruct                // whole transparent struct behind a pointer term
	LSub                   // field / index inside a value-typed aggregate at Parent
	LGlobal                // package-level variable
	LOpaque                // address inside something gocv does not model
)

type Cell struct {
	Name string
	Typ  types.Type // element type
	id   int
	blk  *ssa.BasicBlock // block of the allocation (scoping of names in contracts)
}

type Loc struct {
	Kind   LocKind
	Cell   *Cell
	Base   Term          // LField/LBox/LStruct: pointer; LElem: backing array ref
	Index  Term          // LElem: absolute index; LSub (array): index
	Field  int           // LField/LSub(struct)
	ST     *types.Struct // LField/LStruct/LSub(struct)
	SKey   string        // struct key of ST
	Elem   types.Type    // type stored at this location
	Parent *Loc          // LSub
	IsIdx  bool          // LSub: index rather than field
	Global *ssa.Global
}

type Val struct {
	T   Term
	Loc *Loc
	Tup []Val
	Typ types.Type
	NonNil bool // known non-nil reference (fresh allocation)
	Boxed  *Val // interface value made from this concrete value (MakeInterface)
	// closure bookkeeping (MakeClosure)
	Fn       *ssa.Function
	Bindings []Val
}

func (v Val) isLoc() bool { return v.Loc != nil }

// ---- state --------------------------------------------------------------------------------------

type deferred struct {
	cond Term
	call *ssa.CallCommon
	fr   *Frame
	pos  ssa.Instruction
}

type State struct {
	cells  map[*Cell]Val
	heaps  map[string]Term
	alloc  Term
	defers []deferred
	ghostCalled map[string]Term // call-history flags: name -> Bool term
	callRes     map[string]Val  // results of the calls executed so far, by short callee name (#k = k-th call site)
	epoch       string          // non-empty once a call with arbitrary effects has happened on the way here
	pending     map[string]string // heaps havocked by name before anything looked at them (sort not known yet) -> version tag
}

func (s *State) clone() *State {
	n := &State{cells: make(map[*Cell]Val, len(s.cells)), heaps: make(map[string]Term, len(s.heaps)), alloc: s.alloc, epoch: s.epoch}
	for k, v := range s.cells {
		n.cells[k] = v
	}
	for k, v := range s.heaps {
		n.heaps[k] = v
	}
	n.defers = append([]deferred(nil), s.defers...)
	n.ghostCalled = map[string]Term{}
	for k, v := range s.ghostCalled {
		n.ghostCalled[k] = v
	}
	n.callRes = map[string]Val{}
	for k, v := range s.callRes {
		n.callRes[k] = v
	}
	if len(s.pending) > 0 {
		n.pending = map[string]string{}
		for k, v := range s.pending {
			n.pending[k] = v
		}
	}
	return n
}

// ---- obligations --------------------------------------------------------------------------------

type Obligation struct {
	Name    string
	Kind    string
	Func    string
	Guard   Term
	Formula Term
	Pos     int    // number of script lines that precede it
	Src     string // source text of the clause / description
	Where   string // file:line of the instruction
	Context string // "recovered" when a panic here is caught by a deferred recover
	Inputs  []InputSym
	// results
	Result SolverResult
	Status string // discharged / refuted / undecided
	RegionResult SolverResult
	HasRegion    bool
	Retried      bool
	Candidate    *SolverResult // model of the quantifier-free weakening (to be confirmed by replay)
	Reproduced   bool          // a failing input was replayed on the real code
}

type InputSym struct {
	Name string // Go-level name (parameter)
	Term Term
	Typ  types.Type
	Kind string // "param", "heap", ...
}

// ---- verification unit --------------------------------------------------------------------------

type Unit struct {
	W        *World
	Fn       *ssa.Function
	FnName   string
	Contract *Contract
	decls    []string // sort / function declarations (precede everything)
	lines    []string
	nsym     int
	obls     []*Obligation
	heapSort map[string]string
	heapInit map[string]Term
	structDT map[string]string // struct key -> datatype sort name
	boxFns   map[string]int    // type key -> tag
	strLits  map[string]Term
	globErr  map[string]Term
	notes    map[string]bool // abstractions used
	overflow string          // checked / assumed / wrap
	ordinals map[string]int
	inputs   []InputSym
	cellSeq  int
	depth    int
	recovered bool
	curWhere string
	failed   error
	regions  map[string]Term
	id       int
	callRes    map[string]Val
	curBlock   *ssa.BasicBlock
	scopeBlk   *ssa.BasicBlock
	bytesCache map[string]Term
	groundHints []string
	epochHeaps  map[string]Term
	lastSpecErr string
	vacuityPos  int
	indexTerms  []string
	dropped     []string // loop clauses that no longer apply to the code (renamed / removed locals)
	quants      []*quantAssumption
	boundNow   map[string]bool
	retReach []Term
	retWhere []string
	curLoopPre *State // state in which the most recently entered loop was entered (spec: atentry)
	entryAlloc Term   // allocation counter at function entry
}

var unitSeq atomic.Int64

func newUnit(w *World, fn *ssa.Function, name string, ct *Contract) *Unit {
	u := &Unit{W: w, Fn: fn, FnName: name, Contract: ct,
		heapSort: map[string]string{}, heapInit: map[string]Term{}, structDT: map[string]string{},
		boxFns: map[string]int{}, strLits: map[string]Term{}, globErr: map[string]Term{}, notes: map[string]bool{},
		ordinals: map[string]int{}, overflow: "checked", id: int(unitSeq.Add(1))}
	if ct != nil {
		if v := ct.Opts["overflow"]; v != "" {
			u.overflow = v
		}
	}
	return u
}

func (u *Unit) note(s string) { u.notes[s] = true }

func (u *Unit) sym(prefix string) string {
	u.nsym++
	return fmt.Sprintf("%s_%d_%d", prefix, u.id, u.nsym)
}

// def introduces a named definition for an expression (keeps queries linear in size).
func (u *Unit) def(t Term) Term {
	if len(t.S) < 24 || !strings.HasPrefix(t.S, "(") {
		return t
	}
	n := u.sym("t")
	u.lines = append(u.lines, fmt.Sprintf("(define-fun %s () %s %s)", n, t.Sort, t.S))
	nt := Term{n, t.Sort}
	if s := t.st(); s != nil {
		withSt(nt, s)
	}
	return nt
}

func (u *Unit) fresh(prefix, sort string) Term {
	n := u.sym(sanitizeSym(prefix))
	u.lines = append(u.lines, fmt.Sprintf("(declare-const %s %s)", n, sort))
	return Term{n, sort}
}

func sanitizeSym(s string) string {
	var b strings.Builder
	for _, r := range s {
		if r >= 'a' && r <= 'z' || r >= 'A' && r <= 'Z' || r >= '0' && r <= '9' || r == '_' {
			b.WriteRune(r)
		} else {
			b.WriteRune('_')
		}
	}
	if b.Len() == 0 {
		return "v"
	}
	return b.String()
}

func (u *Unit) assume(guard, f Term) {
	u.recordQuant(guard, f)
	f = u.expandExists(f)
	f = implies(guard, f)
	if f.S == "true" {
		return
	}
	u.lines = append(u.lines, "(assert "+f.S+")")
}

func (u *Unit) comment(s string) {
	u.lines = append(u.lines, "; "+strings.ReplaceAll(s, "\n", " "))
}

// oblige records a proof obligation and afterwards assumes it (it is checked separately).
func (u *Unit) oblige(kind string, guard, f Term, kindName, detail, src string) *Obligation {
	if kind == "safety" && kindName != "safety.overflow" && u.Contract != nil && u.Contract.Opts["safety"] == "assumed" {
		u.note("absence of run-time panics (nil dereference, index, type assertion) is assumed, not proved, in " + u.FnName)
		u.assume(guard, f)
		return &Obligation{}
	}
	f = u.expandExists(f)
	var name string
	if detail != "" {
		key := kindName + "[" + detail + "]"
		k := u.ordinals[key]
		u.ordinals[key] = k + 1
		if k == 0 {
			name = fmt.Sprintf("%s#%s[%s]", u.FnName, kindName, detail)
		} else {
			name = fmt.Sprintf("%s#%s[%s,%d]", u.FnName, kindName, detail, k)
		}
	} else {
		k := u.ordinals[kindName]
		u.ordinals[kindName] = k + 1
		name = fmt.Sprintf("%s#%s[%d]", u.FnName, kindName, k)
	}
	o := &Obligation{Name: name, Kind: kindName, Func: u.FnName, Guard: guard, Formula: f, Pos: len(u.lines), Src: src, Where: u.curWhere}
	if u.recovered && strings.HasPrefix(kindName, "safety.") {
		o.Context = "recovered"
	}
	o.Inputs = u.inputs
	if kind == "safety" && (guard.S == "false" || f.S == "true") {
		return o // statically safe: nothing to prove, not counted
	}
	if guard.S == "false" || f.S == "true" {
		o.Status = "discharged"
		o.Result = SolverResult{Status: "unsat", Solver: "trivial"}
	}
	u.obls = append(u.obls, o)
	u.assume(guard, f)
	return o
}

// ---- sorts --------------------------------------------------------------------------------------

func (u *Unit) typeKey(t types.Type) string {
	switch tt := t.(type) {
	case *types.Named:
		if tt.Obj().Pkg() != nil {
			s := tt.Obj().Pkg().Path() + "." + tt.Obj().Name()
			if tt.TypeArgs().Len() > 0 {
				s += "[" + tt.TypeArgs().At(0).String() + "]"
			}
			return s
		}
		return tt.Obj().Name()
	case *types.Alias:
		return u.typeKey(types.Unalias(t))
	case *types.Basic:
		switch tt.Kind() {
		case types.Uint8:
			return "uint8"
		case types.Int32:
			return "int32"
		case types.UntypedInt:
			return "int"
		case types.UntypedString:
			return "string"
		case types.UntypedBool:
			return "bool"
		case types.UntypedNil:
			return "nil"
		}
		return tt.Name()
	case *types.Pointer:
		return "*" + u.typeKey(tt.Elem())
	case *types.Slice:
		return "[]" + u.typeKey(tt.Elem())
	case *types.Array:
		return fmt.Sprintf("[%d]%s", tt.Len(), u.typeKey(tt.Elem()))
	case *types.Map:
		return "map[" + u.typeKey(tt.Key()) + "]" + u.typeKey(tt.Elem())
	}
	return t.String()
}

func mangle(s string) string {
	var b strings.Builder
	for _, r := range s {
		if r >= 'a' && r <= 'z' || r >= 'A' && r <= 'Z' || r >= '0' && r <= '9' {
			b.WriteRune(r)
		} else {
			b.WriteRune('_')
		}
	}
	return b.String()
}

// transparentStruct says whether gocv models the fields of a struct type.
func (u *Unit) transparentStruct(t types.Type) (*types.Struct, string, bool) {
	st, ok := t.Underlying().(*types.Struct)
	if !ok {
		return nil, "", false
	}
	t = types.Unalias(t)
	if n, ok := t.(*types.Named); ok {
		if n.Obj().Pkg() == nil {
			return nil, "", false
		}
		p := n.Obj().Pkg().Path()
		if !strings.HasPrefix(p, u.W.Module) {
			return nil, "", false
		}
		if n.TypeArgs().Len() > 0 {
			return nil, "", false
		}
		return st, p + "." + n.Obj().Name(), true
	}
	return st, "anon." + mangle(st.String()), true
}

func (u *Unit) sortOf(t types.Type) string {
	t = types.Unalias(t)
	switch tt := t.Underlying().(type) {
	case *types.Basic:
		info := tt.Info()
		switch {
		case info&types.IsBoolean != 0:
			return "Bool"
		case info&types.IsInteger != 0:
			return "Int"
		case info&types.IsString != 0:
			return "Bytes"
		case tt.Kind() == types.UnsafePointer:
			return "Int"
		case tt.Kind() == types.UntypedNil:
			return "Int"
		}
		return "Opaque"
	case *types.Pointer, *types.Map, *types.Chan, *types.Signature:
		return "Int"
	case *types.Slice:
		return "Slice"
	case *types.Interface:
		return "Iface"
	case *types.Array:
		return arraySort("Int", u.sortOf(tt.Elem()))
	case *types.Struct:
		st, key, ok := u.transparentStruct(t)
		if !ok {
			return "Opaque"
		}
		return u.structSort(st, key)
	case *types.Tuple:
		return "Opaque"
	}
	return "Opaque"
}

func (u *Unit) structSort(st *types.Struct, key string) string {
	if s, ok := u.structDT[key]; ok {
		return s
	}
	name := "S_" + mangle(key)
	if len(name) > 80 {
		name = fmt.Sprintf("S_%s_%d", mangle(key)[:60], len(u.structDT))
	}
	u.structDT[key] = name // before recursion (self reference only through pointers)
	var fs []string
	for i := 0; i < st.NumFields(); i++ {
		fs = append(fs, fmt.Sprintf("(%s_f%d %s)", name, i, u.sortOf(st.Field(i).Type())))
	}
	if len(fs) == 0 {
		u.decls = append(u.decls, fmt.Sprintf("(declare-datatypes ((%s 0)) (((mk_%s))))", name, name))
	} else {
		u.decls = append(u.decls, fmt.Sprintf("(declare-datatypes ((%s 0)) (((mk_%s %s))))", name, name, strings.Join(fs, " ")))
	}
	return name
}

func (u *Unit) structMk(st *types.Struct, key string, fields []Term) Term {
	s := u.structSort(st, key)
	if len(fields) == 0 {
		return Term{"mk_" + s, s}
	}
	return app(s, "mk_"+s, fields...)
}

func (u *Unit) structGet(v Term, st *types.Struct, key string, i int) Term {
	s := u.structSort(st, key)
	return app(u.sortOf(st.Field(i).Type()), fmt.Sprintf("%s_f%d", s, i), v)
}

func (u *Unit) zeroOfSort(sort string) Term {
	switch sort {
	case "Int":
		return intLit(0)
	case "Bool":
		return tFalse
	case "Bytes":
		return Term{"bempty", "Bytes"}
	case "Slice":
		return Term{"nilslice", "Slice"}
	case "Iface":
		return Term{"inil", "Iface"}
	case "Opaque":
		return Term{"opaque0", "Opaque"}
	}
	if strings.HasPrefix(sort, "(Array ") {
		_, v := splitArraySort(sort)
		if z := u.zeroOfSort(v); z.S != "" {
			return constArray(sort, z)
		}
	}
	return Term{}
}

func (u *Unit) zeroOf(t types.Type) Term {
	sort := u.sortOf(t)
	if z := u.zeroOfSort(sort); z.S != "" {
		return z
	}
	if at, isArr := t.Underlying().(*types.Array); isArr && strings.HasPrefix(sort, "(Array ") {
		// an array of structs: every element is the zero struct
		return constArray(sort, u.zeroOf(at.Elem()))
	}
	st, key, ok := u.transparentStruct(t)
	if !ok {
		u.unsupportedf("zero value of %s", t.String())
	}
	var fs []Term
	for i := 0; i < st.NumFields(); i++ {
		fs = append(fs, u.zeroOf(st.Field(i).Type()))
	}
	return u.structMk(st, key, fs)
}

// ---- heaps --------------------------------------------------------------------------------------

func (u *Unit) heap(st *State, name, sort string) Term {
	if t, ok := st.heaps[name]; ok {
		return t
	}
	if _, ok := u.heapInit[name]; !ok {
		// first use anywhere: the initial version is an unconstrained input of the function
		n := "H0_" + mangle(name)
		if len(n) > 90 {
			n = fmt.Sprintf("%s_%d", n[:80], len(u.heapSort))
		}
		u.decls = append(u.decls, fmt.Sprintf("(declare-const %s %s)", n, sort))
		u.heapSort[name] = sort
		u.heapInit[name] = Term{n, sort}
	}
	if tag, ok := st.pending[name]; (ok && tag != "") || (!ok && st.epoch != "") {
		// the state has been through a call with arbitrary effects (or one whose frame names this
		// heap) since entry: a heap that is looked at for the first time now is NOT the entry version
		// (a pending tag "" says: still the entry version - the heap was exempt from every such call)
		if !ok {
			tag = st.epoch
		}
		key := tag + "|" + name
		t, ok := u.epochHeaps[key]
		if !ok {
			n := fmt.Sprintf("HE_%s_%s", tag, mangle(name))
			if len(n) > 90 {
				n = fmt.Sprintf("%s_%d", n[:80], len(u.epochHeaps))
			}
			u.decls = append(u.decls, fmt.Sprintf("(declare-const %s %s)", n, sort))
			t = Term{n, sort}
			if u.epochHeaps == nil {
				u.epochHeaps = map[string]Term{}
			}
			u.epochHeaps[key] = t
		}
		st.heaps[name] = t
		return t
	}
	t := u.heapInit[name]
	st.heaps[name] = t
	return t
}

// heapNow is heap() for a heap whose sort is already known.
func (u *Unit) heapNow(st *State, name string) Term {
	return u.heap(st, name, u.heapSort[name])
}

func (u *Unit) fieldHeapName(skey string, st *types.Struct, i int) string {
	return "F:" + skey + "." + st.Field(i).Name()
}

func (u *Unit) memHeap(st *State, elem types.Type) (string, Term) {
	name := "M:" + u.typeKey(elem)
	es := u.sortOf(elem)
	return name, u.heap(st, name, arraySort("Int", arraySort("Int", es)))
}

func (u *Unit) boxHeap(st *State, elem types.Type) (string, Term) {
	name := "B:" + u.typeKey(elem)
	return name, u.heap(st, name, arraySort("Int", u.sortOf(elem)))
}

func (u *Unit) mapHeaps(st *State, m *types.Map) (string, Term, string, Term) {
	k := u.typeKey(m.Key()) + "|" + u.typeKey(m.Elem())
	ks, vs := u.sortOf(m.Key()), u.sortOf(m.Elem())
	dn, vn := "MD:"+k, "MV:"+k
	return dn, u.heap(st, dn, arraySort("Int", arraySort(ks, "Bool"))), vn, u.heap(st, vn, arraySort("Int", arraySort(ks, vs)))
}

// newRef allocates a fresh reference.
func (u *Unit) newRef(st *State) Term {
	r := u.def(st.alloc)
	st.alloc = u.def(app("Int", "+", r, intLit(1)))
	return r
}

// havocHeaps replaces the listed heaps (all known heaps when names == nil) by unknown values.
func (u *Unit) havocHeaps(st *State, names []string, why string) {
	if names == nil {
		st.epoch = u.sym("ep")
		if os.Getenv("GOCV_DEBUG") != "" {
			fmt.Fprintf(os.Stderr, "%s: arbitrary heap effects (%s) at %s -> %s\n", u.FnName, why, u.curWhere, st.epoch)
		}
		for n := range u.heapSort {
			names = append(names, n)
		}
		sort.Strings(names)
		st.pending = nil // superseded: everything not looked at yet now has the version of the new epoch
	}
	for _, n := range names {
		if strings.HasPrefix(n, "GC:") || (strings.HasPrefix(n, "RV:") && why != "loop") {
			continue // ghost state of map iterations is not touched by calls
		}
		s, ok := u.heapSort[n]
		if !ok || st.heaps[n].S == "" {
			// nothing has looked at this heap on this path yet: remember that the version seen from
			// here on is not the entry version
			if st.pending == nil {
				st.pending = map[string]string{}
			}
			st.pending[n] = u.sym("hv")
			if !ok {
				continue
			}
		}
		if strings.HasPrefix(n, "GC:") || (strings.HasPrefix(n, "RV:") && why != "loop") {
			continue // ghost state of map iterations is not touched by calls
		}
		st.heaps[n] = u.fresh("H_"+mangle(n), s)
	}
	// the allocation counter only grows
	old := st.alloc
	st.alloc = u.fresh("alloc", "Int")
	u.assume(tTrue, app("Bool", ">=", st.alloc, old))
}

// ---- integer ranges -----------------------------------------------------------------------------

func intRange(t types.Type) (lo, hi string, ok bool) {
	b, isB := t.Underlying().(*types.Basic)
	if !isB || b.Info()&types.IsInteger == 0 {
		return "", "", false
	}
	switch b.Kind() {
	case types.Int8:
		return "-128", "127", true
	case types.Int16:
		return "-32768", "32767", true
	case types.Int32:
		return "-2147483648", "2147483647", true
	case types.Int, types.Int64, types.UntypedInt, types.UntypedRune:
		return "-9223372036854775808", "9223372036854775807", true
	case types.Uint8:
		return "0", "255", true
	case types.Uint16:
		return "0", "65535", true
	case types.Uint32:
		return "0", "4294967295", true
	case types.Uint, types.Uint64, types.Uintptr:
		return "0", "18446744073709551615", true
	}
	return "", "", false
}

func inRange(t Term, typ types.Type) Term {
	lo, hi, ok := intRange(typ)
	if !ok {
		return tTrue
	}
	return and(app("Bool", "<=", bigLit(lo), t), app("Bool", "<=", t, bigLit(hi)))
}

// typeInv is the value-level typing invariant assumed for inputs, loads and call results.
func (u *Unit) typeInv(st *State, v Term, typ types.Type) Term {
	typ = types.Unalias(typ)
	switch tt := typ.Underlying().(type) {
	case *types.Basic:
		if tt.Info()&types.IsInteger != 0 {
			return inRange(v, typ)
		}
	case *types.Pointer, *types.Map, *types.Chan, *types.Signature:
		return and(app("Bool", "<=", intLit(0), v), app("Bool", "<", v, st.alloc))
	case *types.Interface:
		// the object an interface value refers to (if any) exists already
		return app("Bool", "<", app("Int", "irefof", v), st.alloc)
	case *types.Slice:
		arr, off, ln, cp := sArr(v), sOff(v), sLen(v), sCap(v)
		return and(app("Bool", "<=", intLit(0), arr), app("Bool", "<", arr, st.alloc), app("Bool", "<=", intLit(0), off),
			app("Bool", "<=", intLit(0), ln), app("Bool", "<=", ln, cp),
			app("Bool", "<=", cp, bigLit("4611686018427387904")),
			implies(eq(arr, intLit(0)), and(eq(cp, intLit(0)), eq(off, intLit(0)))))
	}
	return tTrue
}
