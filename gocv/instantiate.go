package main

import "strings"

// quantified assumptions of the shape (forall ((k Int)) BODY) are additionally instantiated at the
// index terms the program actually uses: the solvers' E-matching is unreliable on patterns that
// contain arithmetic (slice offset + index), and an instance of a universally quantified
// assumption is always sound.
type quantAssumption struct {
	guard Term
	v     string
	body  string
	done  map[string]bool
}

func (u *Unit) recordQuant(guard, f Term) {
	s := f.S
	const pre = "(forall (("
	if !strings.HasPrefix(s, pre) {
		return
	}
	rest := s[len(pre):]
	i := strings.Index(rest, " Int)) ")
	if i < 0 || strings.ContainsAny(rest[:i], "() ") {
		return
	}
	v := rest[:i]
	body := rest[i+len(" Int)) ") : len(rest)-1]
	if strings.HasPrefix(body, "(! ") {
		// strip the pattern annotation
		if j := strings.LastIndex(body, " :pattern"); j > 0 {
			body = body[3:j]
		}
	}
	u.quants = append(u.quants, &quantAssumption{guard: guard, v: v, body: body, done: map[string]bool{}})
}

func substToken(body, v, repl string) string {
	toks := tokenize(body)
	var b strings.Builder
	for i, t := range toks {
		if t == v {
			t = repl
		}
		if i > 0 && toks[i-1] != "(" && t != ")" {
			b.WriteByte(' ')
		}
		b.WriteString(t)
	}
	return b.String()
}

// instantiateAt adds the instances of all recorded quantified assumptions at the index term t.
func (u *Unit) instantiateAt(t Term) {
	if t.Sort != "Int" || len(u.quants) == 0 {
		return
	}
	for _, q := range u.quants {
		if q.done[t.S] || len(q.done) > 12 {
			continue
		}
		q.done[t.S] = true
		inst := Term{substToken(q.body, q.v, t.S), "Bool"}
		u.lines = append(u.lines, "(assert "+implies(q.guard, inst).S+")")
	}
}

// expandExists rewrites every (exists ((k Int)) BODY) in a formula to
// (or (exists ((k Int)) BODY) BODY[k:=t1] ... BODY[k:=tn]) for the index terms the program has
// used so far. The two formulas are equivalent (an instance implies the existential), in goals and
// in assumptions alike; the instances merely hand the solvers the witnesses they rarely find
// themselves when the index sits under slice-offset arithmetic.
func (u *Unit) expandExists(f Term) Term {
	if len(u.indexTerms) == 0 || !strings.Contains(f.S, "(exists ((") {
		return f
	}
	s := f.S
	var out strings.Builder
	for {
		i := strings.Index(s, "(exists ((")
		if i < 0 {
			out.WriteString(s)
			break
		}
		// find the end of this s-expression
		depth, j := 0, i
		for ; j < len(s); j++ {
			if s[j] == '(' {
				depth++
			} else if s[j] == ')' {
				depth--
				if depth == 0 {
					break
				}
			}
		}
		ex := s[i : j+1]
		head := ex[len("(exists (("):]
		k := strings.Index(head, " Int)) ")
		if k < 0 || strings.ContainsAny(head[:k], "() ") {
			out.WriteString(s[:j+1])
			s = s[j+1:]
			continue
		}
		v := head[:k]
		body := head[k+len(" Int)) ") : len(head)-1]
		out.WriteString(s[:i])
		out.WriteString("(or " + ex)
		n := 0
		for t := len(u.indexTerms) - 1; t >= 0 && n < 6; t-- {
			out.WriteString(" " + substToken(body, v, u.indexTerms[t]))
			n++
		}
		out.WriteString(")")
		s = s[j+1:]
	}
	return Term{out.String(), f.Sort}
}

func (u *Unit) noteIndexTerm(t Term) {
	if t.Sort != "Int" || isIntLit(t.S) {
		return
	}
	for _, x := range u.indexTerms {
		if x == t.S {
			return
		}
	}
	u.indexTerms = append(u.indexTerms, t.S)
}
