#!/bin/sh
# Must-fail corpus: every mutant (a property-breaking edit of the real code, applied as a load
# overlay - the repository is not touched) has to make the named obligation fail.
# usage: selftest/run.sh [property]        (SELFTEST_JOBS=n mutants in parallel, default 3)
cd "$(dirname "$0")/.."
one() {
  line="$1"
  prop=$(printf '%s' "$line" | cut -f1); file=$(printf '%s' "$line" | cut -f2); expr=$(printf '%s' "$line" | cut -f3); expect=$(printf '%s' "$line" | cut -f4)
  d=$(mktemp -d /tmp/mutXXXXXX)
  sed "$expr" /repo/$file > $d/m.go
  if cmp -s /repo/$file $d/m.go; then echo "STALE  $prop $file '$expr' (mutant does not change the file)"; rm -rf $d; return; fi
  echo "{\"/repo/$file\":\"$d/m.go\"}" > $d/ov.json
  out=$(GOCV_WORKDIR_SUFFIX=$(basename $d) ./bin/gocv -prop $prop -overlay $d/ov.json -no-evidence -expect-fail "$expect" 2>&1)
  if echo "$out" | grep -q "expected failure observed"; then echo "CAUGHT $prop $file '$expr' -> $(echo "$out" | grep 'expected failure observed' | sed 's/.*observed: //')"; else echo "MISSED $prop $file '$expr' (expected $expect)"; fi
  rm -rf $d /verif/work/$prop.$(basename $d)
}
if [ "$1" = "--one" ]; then one "$2"; exit 0; fi
grep -v '^#' selftest/mutants.tsv | grep -v '^$' | { if [ -n "$1" ]; then grep "^$1	"; else cat; fi; } | tr '\n' '\0' | xargs -0 -n1 -P "${SELFTEST_JOBS:-3}" "$0" --one
