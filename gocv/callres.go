package main

import (
	"fmt"
	"go/types"
	"strings"

	"golang.org/x/tools/go/ssa"
)

// shortCallee: the method or function name without package / receiver.
func shortCallee(name string) string {
	if i := strings.LastIndex(name, ")."); i >= 0 {
		return name[i+2:]
	}
	if i := strings.LastIndex(name, "."); i >= 0 {
		return name[i+1:]
	}
	return name
}

// recordCall remembers the result of a call made by the function under proof so that contracts
// can refer to it: ret(Name), ret(Name, k) for the k-th call site of that name, called(Name).
func (u *Unit) recordCall(fr *Frame, st *State, c *ssa.CallCommon, res Val) {
	if fr.parent != nil {
		return
	}
	if _, ok := c.Value.(*ssa.Builtin); ok {
		return
	}
	name := shortCallee(u.calleeName(c))
	k := u.siteIndex(fr.fn, c, func(n string) bool { return shortCallee(n) == name })
	if u.callRes == nil {
		u.callRes = map[string]Val{}
	}
	if k == 0 {
		u.callRes[name] = res
	}
	u.callRes[fmt.Sprintf("%s#%d", name, k)] = res
	if st.callRes == nil {
		st.callRes = map[string]Val{}
	}
	if k == 0 {
		st.callRes[name] = res
	}
	st.callRes[fmt.Sprintf("%s#%d", name, k)] = res
	if st.ghostCalled == nil {
		st.ghostCalled = map[string]Term{}
	}
	st.ghostCalled["called:"+name] = tTrue
	st.ghostCalled[fmt.Sprintf("called:%s#%d", name, k)] = tTrue
}

// evalRet implements ret(Name[, k]) / ret0(Name[, k]) / ret1(Name[, k]).
func (u *Unit) evalRet(e *SExpr, env *Env) Val {
	if len(e.Args) == 0 || e.Args[0].Kind != "id" {
		u.specFail("%s needs a callee name", e.Name)
	}
	key := e.Args[0].Name
	if len(e.Args) > 1 {
		key = fmt.Sprintf("%s#%s", key, e.Args[1].Name)
	}
	v, ok := env.st.callRes[key]
	if !ok {
		v, ok = u.callRes[key]
	}
	if !ok {
		v, ok = u.unmadeCall(key, env.st)
	}
	if !ok {
		panic(missingCall{key})
	}
	switch e.Name {
	case "ret":
		if v.Tup != nil {
			return v.Tup[0]
		}
		return v
	default:
		idx := int(e.Name[3] - '0')
		if idx >= len(v.Tup) {
			if idx == 0 && v.Tup == nil {
				return v
			}
			u.specFail("%s: callee has %d results", e.Name, len(v.Tup))
		}
		return v.Tup[idx]
	}
}

// tryEvalBool evaluates a clause and reports false when it does not apply in this context
// (unknown identifier: a local of another function, a ret() of a call that is not made here).
func (u *Unit) tryEvalBool(e *SExpr, env *Env) (t Term, ok bool) {
	defer func() {
		if r := recover(); r != nil {
			if se, is := r.(specError); is {
				ok = false
				u.lastSpecErr = se.msg
				return
			}
			if _, is := r.(missingCall); is {
				ok = false
				return
			}
			panic(r)
		}
	}()
	return u.evalBool(e, env), true
}

// siteIndex: position of a call site among the calls of fn whose callee name matches (by `match`),
// in source order. Stable under the order in which blocks happen to be executed symbolically.
func (u *Unit) siteIndex(fn *ssa.Function, c *ssa.CallCommon, match func(name string) bool) int {
	type site struct {
		pos int
		c   *ssa.CallCommon
	}
	var sites []site
	for _, b := range fn.Blocks {
		for k, in := range b.Instrs {
			ci, ok := in.(ssa.CallInstruction)
			if !ok {
				continue
			}
			cc := ci.Common()
			var name string
			if bi, ok := cc.Value.(*ssa.Builtin); ok {
				name = "builtin." + bi.Name()
			} else {
				name = u.calleeName(cc)
			}
			if match(name) {
				p := int(in.Pos())
				if p == 0 {
					p = 1<<30 + b.Index*10000 + k
				}
				sites = append(sites, site{p, cc})
			}
		}
	}
	for i := 1; i < len(sites); i++ {
		for j := i; j > 0 && sites[j].pos < sites[j-1].pos; j-- {
			sites[j], sites[j-1] = sites[j-1], sites[j]
		}
	}
	for i, s := range sites {
		if s.c == c {
			return i
		}
	}
	return -1
}

// missingCall: a clause refers to the result of a call the function does not make (any more).
type missingCall struct{ name string }

// evalClause evaluates a clause that becomes an obligation. A clause about ret(X) when the function
// does not call X at all is false: the code no longer has the structure the contract demands.
func (u *Unit) evalClause(e *SExpr, env *Env) (t Term) {
	defer func() {
		if r := recover(); r != nil {
			if m, is := r.(missingCall); is {
				u.note("clause refers to a call that is not made: " + m.name)
				t = tFalse
				return
			}
			panic(r)
		}
	}()
	return u.evalBool(e, env)
}

// evalFieldsEqual: fieldsEqual(a, b) / fieldsEqualExcept(a, b, "F", ...): a and b point to structs of
// the same type and every exported field (minus the listed ones) is equal. The clause is generated
// from the struct type, so a field added to the type later is covered automatically.
func (u *Unit) evalFieldsEqual(e *SExpr, env *Env) Val {
	a, b := u.eval(e.Args[0], env), u.eval(e.Args[1], env)
	except := map[string]bool{}
	for _, x := range e.Args[2:] {
		except[x.Name] = true
	}
	if a.Typ == nil || b.Typ == nil {
		u.specFail("%s of untyped values", e.Name)
	}
	pt, ok := a.Typ.Underlying().(*types.Pointer)
	if !ok {
		u.specFail("%s needs pointers to structs", e.Name)
	}
	sst, key, ok := u.transparentStruct(pt.Elem())
	if !ok {
		u.specFail("%s: %s is not a struct gocv models", e.Name, pt.Elem())
	}
	at, bt := u.termOf(a), u.termOf(b)
	var cs []Term
	n := 0
	for i := 0; i < sst.NumFields(); i++ {
		f := sst.Field(i)
		if !f.Exported() || except[f.Name()] {
			continue
		}
		n++
		h := u.heap(env.st, u.fieldHeapName(key, sst, i), arraySort("Int", u.sortOf(f.Type())))
		x, y := sel(h, at), sel(h, bt)
		if x.Sort == "Bytes" {
			cs = append(cs, eq(x, y))
		} else {
			cs = append(cs, eq2(x, y))
		}
	}
	for name := range except {
		if i, _ := findField(sst, name); i < 0 {
			u.specFail("%s: no field %s in %s", e.Name, name, pt.Elem())
		}
	}
	return Val{T: and(cs...)}
}

// specPointerType resolves `T` or `pkg.T` in a contract to the Go type *T.
func (u *Unit) specPointerType(e *SExpr, env *Env) types.Type {
	var pkg *types.Package
	name := ""
	switch {
	case e.Kind == "id":
		pkg, name = u.pkgScope(env, ""), e.Name
	case e.Kind == "field" && e.Args[0].Kind == "id":
		pkg, name = u.pkgScope(env, e.Args[0].Name), e.Name
	}
	if pkg == nil {
		u.specFail("cannot resolve type %s", e.String())
	}
	obj := pkg.Scope().Lookup(name)
	tn, ok := obj.(*types.TypeName)
	if !ok {
		u.specFail("%s is not a type", e.String())
	}
	return types.NewPointer(tn.Type())
}

// wildGhost returns the heap of a wildcard ghost field and the key under which x's abstract state
// is stored.
func (u *Unit) wildGhost(st *State, g GhostField, x Val) (Term, Term) {
	h := u.heap(st, "GH:*."+g.Field, arraySort("Iface", g.Sort))
	return h, u.ghostKey(x)
}

func (u *Unit) ghostKey(x Val) Term {
	if x.T.Sort == "Iface" {
		return x.T
	}
	if x.Typ == nil {
		u.specFail("ghost state of an untyped value")
	}
	return u.boxIface(u.termOf(x), x.Typ)
}

// evalLoopClause evaluates a loop invariant. A clause that names a local variable the function no
// longer has does not apply any more (the loop was rewritten): it is dropped - neither assumed nor
// claimed - and the unit is marked so that nothing is reported from it as a violation unless a
// failing input is actually reproduced on the real code.
func (u *Unit) evalLoopClause(e *SExpr, env *Env) (t Term, ok bool) {
	defer func() {
		if r := recover(); r != nil {
			if se, is := r.(specError); is {
				u.dropped = append(u.dropped, e.String()+": "+se.msg)
				t, ok = tTrue, false
				return
			}
			panic(r)
		}
	}()
	return u.evalClause(e, env), true
}

func (u *Unit) evalLoopMeasure(e *SExpr, env *Env) (t Term, ok bool) {
	defer func() {
		if r := recover(); r != nil {
			if se, is := r.(specError); is {
				u.dropped = append(u.dropped, e.String()+": "+se.msg)
				ok = false
				return
			}
			panic(r)
		}
	}()
	return u.evalInt(e, env), true
}

// havocLoopCalls: at a loop head the call history of the sites inside the loop is unknown (the flags
// called(...) may have become true, the last results ret(...) are arbitrary); loop invariants can
// constrain them.
func (u *Unit) havocLoopCalls(fr *Frame, li *loopInfo, st *State, reach Term) {
	var blocks []*ssa.BasicBlock
	for b := range li.blocks {
		blocks = append(blocks, b)
	}
	for i := 1; i < len(blocks); i++ {
		for j := i; j > 0 && blocks[j].Index < blocks[j-1].Index; j-- {
			blocks[j], blocks[j-1] = blocks[j-1], blocks[j]
		}
	}
	if st.ghostCalled == nil {
		st.ghostCalled = map[string]Term{}
	}
	if st.callRes == nil {
		st.callRes = map[string]Val{}
	}
	for _, b := range blocks {
		for _, in := range b.Instrs {
			ci, ok := in.(ssa.CallInstruction)
			if !ok {
				continue
			}
			c := ci.Common()
			if _, isB := c.Value.(*ssa.Builtin); isB {
				continue
			}
			full := u.calleeName(c)
			keys := []string{"called:" + full}
			if fr.parent == nil {
				name := shortCallee(full)
				k := u.siteIndex(fr.fn, c, func(n string) bool { return shortCallee(n) == name })
				keys = append(keys, "called:"+name, fmt.Sprintf("called:%s#%d", name, k))
				var resT types.Type
				if v, ok := in.(ssa.Value); ok {
					resT = v.Type()
				} else {
					resT = c.Signature().Results()
				}
				res := u.freshResult(st, resT, "last_"+name)
				if k == 0 {
					st.callRes[name] = res
				}
				st.callRes[fmt.Sprintf("%s#%d", name, k)] = res
			}
			for _, key := range keys {
				old, ok := st.ghostCalled[key]
				if !ok {
					old = tFalse
				}
				nv := u.fresh("called", "Bool")
				u.assume(reach, implies(old, nv))
				st.ghostCalled[key] = nv
			}
		}
	}
}

// unmadeCall: ret(Name[,k]) on a path where that call site has not been executed (yet): the value is
// arbitrary (one fixed unknown per site). Only for sites the function under proof actually has.
func (u *Unit) unmadeCall(key string, st *State) (Val, bool) {
	if u.Fn == nil {
		return Val{}, false
	}
	name, want := key, 0
	if i := strings.Index(key, "#"); i >= 0 {
		name = key[:i]
		fmt.Sscanf(key[i+1:], "%d", &want)
	}
	for _, b := range u.Fn.Blocks {
		for _, in := range b.Instrs {
			ci, ok := in.(ssa.CallInstruction)
			if !ok {
				continue
			}
			c := ci.Common()
			if _, isB := c.Value.(*ssa.Builtin); isB {
				continue
			}
			if shortCallee(u.calleeName(c)) != name {
				continue
			}
			if u.siteIndex(u.Fn, c, func(n string) bool { return shortCallee(n) == name }) != want {
				continue
			}
			var resT types.Type
			if v, ok := in.(ssa.Value); ok {
				resT = v.Type()
			} else {
				resT = c.Signature().Results()
			}
			res := u.freshResult(st, resT, "unmade_"+name)
			if u.callRes == nil {
				u.callRes = map[string]Val{}
			}
			u.callRes[key] = res
			return res, true
		}
	}
	return Val{}, false
}
