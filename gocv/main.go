package main

import (
	"encoding/json"
	"flag"
	"go/types"
	"fmt"
	"os"
	"path/filepath"
	"sort"
	"strings"
	"sync"
	"time"

	"golang.org/x/tools/go/ssa"
)

// PropConfig says which packages a property's contracts live in.
type PropConfig struct {
	Packages []string `json:"packages"`
	Level    string   `json:"level"`
	Notes    []string `json:"notes"`
	Extra    []string `json:"extra_trusted"`
}

type KnownFinding struct {
	Property   string `json:"property,omitempty"`
	Obligation string `json:"obligation,omitempty"`
	Region     string `json:"region,omitempty"`
	What       string `json:"what,omitempty"`
	Input      string `json:"input,omitempty"`
	Fixed      string `json:"fixed,omitempty"`
}

var (
	flagRepo    = flag.String("repo", "/repo", "repository under verification")
	flagVerif   = flag.String("verif", "/verif", "verification directory")
	flagProp    = flag.String("prop", "", "property id")
	flagTier    = flag.String("tier", "quick", "quick or thorough")
	flagOnly    = flag.String("only", "", "only obligations whose name contains this")
	flagFunc    = flag.String("func", "", "only functions whose name contains this")
	flagDump    = flag.Bool("dump", false, "print SSA of the functions")
	flagKeep    = flag.Bool("keep", false, "keep query files")
	flagVerbose = flag.Bool("v", false, "verbose")
	flagNoEvid  = flag.Bool("no-evidence", false, "do not write evidence")
	flagOverlay = flag.String("overlay", "", "JSON file {path: replacement-file} applied to the load (mutant testing)")
	flagExpect  = flag.String("expect-fail", "", "selftest: succeed iff an obligation containing this name fails")
)

func main() {
	flag.Parse()
	if *flagProp == "" {
		fmt.Fprintln(os.Stderr, "usage: gocv -prop <id> [-tier quick|thorough]")
		os.Exit(2)
	}
	os.Exit(runCheck())
}

type unitResult struct {
	u       *Unit
	name    string
	err     string
	secs    float64
	vacuity string
}

func runCheck() int {
	t0 := time.Now()
	prop := *flagProp
	var cfgs map[string]PropConfig
	data, err := os.ReadFile(filepath.Join(*flagVerif, "props.json"))
	if err != nil {
		return undecided(prop, "cannot read props.json: "+err.Error())
	}
	if err := json.Unmarshal(data, &cfgs); err != nil {
		return undecided(prop, "props.json: "+err.Error())
	}
	cfg, ok := cfgs[prop]
	if !ok {
		return undecided(prop, "no configuration for property")
	}
	var overlay map[string][]byte
	if *flagOverlay != "" {
		var ov map[string]string
		d, err := os.ReadFile(*flagOverlay)
		if err != nil {
			return undecided(prop, err.Error())
		}
		if err := json.Unmarshal(d, &ov); err != nil {
			return undecided(prop, err.Error())
		}
		overlay = map[string][]byte{}
		for k, v := range ov {
			b, err := os.ReadFile(v)
			if err != nil {
				return undecided(prop, err.Error())
			}
			overlay[k] = b
		}
	}
	w, err := loadWorld(*flagRepo, cfg.Packages, filepath.Join(*flagVerif, "spec"), overlay)
	if err != nil {
		return undecided(prop, "load: "+err.Error())
	}
	w.LoadSecs = time.Since(t0).Seconds()
	var known []KnownFinding
	if d, err := os.ReadFile(filepath.Join(*flagVerif, "known_findings.json")); err == nil {
		if err := json.Unmarshal(d, &known); err != nil {
			return undecided(prop, "known_findings.json: "+err.Error())
		}
	}
	workDir := filepath.Join(*flagVerif, "work", prop)
	if sfx := os.Getenv("GOCV_WORKDIR_SUFFIX"); sfx != "" {
		workDir += "." + sfx // parallel runs of one property (must-fail corpus) must not share query files
	}
	os.RemoveAll(workDir)
	os.MkdirAll(workDir, 0o755)

	// collect units: contracts and lemmas tagged with the property
	var cts []*Contract
	for _, c := range w.Contracts {
		if c.Kind == "func" && hasProp(c.Props, prop) {
			if *flagFunc == "" || strings.Contains(c.Name, *flagFunc) {
				cts = append(cts, c)
			}
		}
	}
	sort.Slice(cts, func(i, j int) bool { return cts[i].Name < cts[j].Name })
	var lemmas []*Lemma
	for _, cf := range w.CFiles {
		for _, l := range cf.Lemmas {
			if hasProp(l.Props, prop) && (*flagFunc == "" || strings.Contains(l.Name, *flagFunc)) {
				lemmas = append(lemmas, l)
			}
		}
	}
	if len(cts)+len(lemmas) == 0 {
		return undecided(prop, "no contracts tagged with this property were found (contract files missing?)")
	}
	timeout := 20
	if *flagTier == "thorough" {
		timeout = 60
	}

	results := make([]*unitResult, len(cts)+len(lemmas))
	var wg sync.WaitGroup
	sem := make(chan struct{}, 6)
	for i, c := range cts {
		wg.Add(1)
		go func(i int, c *Contract) {
			defer wg.Done()
			sem <- struct{}{}
			defer func() { <-sem }()
			results[i] = verifyContract(w, c, known, prop)
		}(i, c)
	}
	for i, l := range lemmas {
		wg.Add(1)
		go func(i int, l *Lemma) {
			defer wg.Done()
			sem <- struct{}{}
			defer func() { <-sem }()
			results[len(cts)+i] = verifyLemma(w, l)
		}(i, l)
	}
	wg.Wait()
	genSecs := time.Since(t0).Seconds()

	// discharge
	var all []*Obligation
	oblUnit := map[*Obligation]*Unit{}
	var infra []string
	for _, r := range results {
		if r.err != "" {
			infra = append(infra, r.name+": "+r.err)
			continue
		}
		for _, o := range r.u.obls {
			if *flagOnly != "" && !strings.Contains(o.Name, *flagOnly) {
				continue
			}
			all = append(all, o)
			oblUnit[o] = r.u
		}
	}
	var dwg sync.WaitGroup
	dsem := make(chan struct{}, 12)
	for _, o := range all {
		if o.Status != "" {
			continue
		}
		dwg.Add(1)
		go func(o *Obligation) {
			defer dwg.Done()
			dsem <- struct{}{}
			defer func() { <-dsem }()
			discharge(oblUnit[o], o, workDir, timeout, known, prop)
		}(o)
	}
	dwg.Wait()
	// vacuity probes
	var vwg sync.WaitGroup
	for _, r := range results {
		if r.err == "" && r.u != nil {
			vwg.Add(1)
			go func(r *unitResult) {
				defer vwg.Done()
				r.vacuity = vacuityProbe(r.u, workDir, 4)
			}(r)
		}
	}
	vwg.Wait()
	return report(prop, cfg, w, results, all, oblUnit, infra, known, workDir, t0, genSecs)
}

func hasProp(ps []string, p string) bool {
	for _, x := range ps {
		if strings.TrimSpace(x) == p {
			return true
		}
	}
	return false
}

func undecided(prop, reason string) int {
	fmt.Printf("UNDECIDED property=%s reason=%s\n", prop, reason)
	return 2
}

// ---- building a unit for a function contract -----------------------------------------------------

func verifyContract(w *World, ct *Contract, known []KnownFinding, prop string) (res *unitResult) {
	t0 := time.Now()
	res = &unitResult{name: ct.Name}
	fn := w.lookupFunc(ct.Name)
	if fn == nil {
		res.err = "contract does not apply: function not found"
		return
	}
	short := strings.TrimPrefix(strings.ReplaceAll(ct.Name, w.Module+"/", ""), w.Module+"/")
	u := newUnit(w, fn, short, ct)
	res.u = u
	defer func() {
		res.secs = time.Since(t0).Seconds()
		if r := recover(); r != nil {
			switch e := r.(type) {
			case unsupported:
				res.err = "outside the supported subset: " + e.msg
			case specError:
				res.err = "contract does not apply: " + e.msg
			default:
				panic(r)
			}
		}
	}()
	if *flagDump {
		fn.WriteTo(os.Stdout)
	}
	u.verifyFunction(known, prop)
	return
}

func (u *Unit) verifyFunction(known []KnownFinding, prop string) {
	fn, ct := u.Fn, u.Contract
	st := &State{cells: map[*Cell]Val{}, heaps: map[string]Term{}, ghostCalled: map[string]Term{}}
	st.alloc = u.fresh("alloc0", "Int")
	alloc0 := st.alloc
	u.entryAlloc = alloc0
	u.assume(tTrue, app("Bool", ">", st.alloc, intLit(0)))
	fr := u.newFrame(fn, nil)
	fr.top = true
	fr.ct = ct
	var args []Val
	for i, p := range fn.Params {
		v := u.freshVal(st, "p_"+p.Name(), p.Type())
		args = append(args, v)
		kind := "param"
		if i == 0 && fn.Signature.Recv() != nil {
			kind = "recv"
			if _, isPtr := p.Type().Underlying().(*types.Pointer); isPtr && ct.Opts["nilrecv"] == "" {
				u.assume(tTrue, not(eq(v.T, intLit(0))))
			}
		}
		u.inputs = append(u.inputs, InputSym{Name: p.Name(), Term: v.T, Typ: p.Type(), Kind: kind})
	}
	for _, fv := range fn.FreeVars {
		v := u.freshVal(st, "free_"+fv.Name(), fv.Type())
		u.assume(tTrue, not(eq(v.T, intLit(0))))
		fr.vals[fv] = v
		fr.params[fv.Name()] = v
	}
	if _, ok := ct.Opts["recovered"]; ok {
		u.recovered = true
	}
	if fnHasRecover(fn) {
		u.recovered = true
	}
	env := &Env{u: u, st: st, old: st, vars: map[string]Val{}, pkg: ct.Pkg}
	for i, p := range fn.Params {
		env.vars[p.Name()] = args[i]
	}
	for _, fv := range fn.FreeVars {
		env.vars[fv.Name()] = fr.vals[fv]
	}
	for _, rq := range ct.Requires {
		u.assume(tTrue, u.evalBool(rq.Expr, env))
	}
	// regions of known findings are predicates over the entry state
	regions := map[string]Term{}
	for _, k := range known {
		if k.Region != "" && strings.HasPrefix(k.Obligation, u.FnName+"#") {
			e, err := parseSpec(k.Region)
			if err != nil {
				u.specFail("known finding region: %v", err)
			}
			regions[k.Obligation] = u.def(u.evalBool(e, env))
		}
	}
	u.regions = regions
	entry := st.clone()
	reach := tTrue
	u.runFunction(fr, args, st, reach)
	u.vacuityPos = len(u.lines) // before the postconditions are assumed
	// postconditions at every return
	var resNames []string
	for i := 0; i < fn.Signature.Results().Len(); i++ {
		resNames = append(resNames, fn.Signature.Results().At(i).Name())
	}
	for _, r := range fr.rets {
		// locals of the function are visible in postconditions (their value at the return)
		penv := &Env{u: u, st: r.st, old: entry, vars: map[string]Val{}, pkg: ct.Pkg, fr: fr, locals: true}
		for i, p := range fn.Params {
			penv.vars[p.Name()] = args[i]
		}
		for _, fv := range fn.FreeVars {
			penv.vars[fv.Name()] = fr.vals[fv]
		}
		var rv Val
		switch len(r.results) {
		case 0:
		case 1:
			rv = r.results[0]
		default:
			rv = Val{Tup: r.results}
		}
		// results shadow parameters of the same name only if they are named results
		for i, n := range resNames {
			if n != "" && n != "_" {
				delete(penv.vars, n)
				_ = i
			}
		}
		bindResults(penv, rv, resNames)
		u.curWhere = ""
		u.scopeBlk = r.blk
		for k, en := range ct.Ensures {
			f := u.evalClause(en.Expr, penv)
			o := u.oblige("post", r.reach, f, "post", fmt.Sprint(k), en.Src)
			_ = o
		}
		u.checkFrame(ct, r, alloc0, penv)
		u.retReach = append(u.retReach, r.reach)
		where := ""
		if r.blk != nil && len(r.blk.Instrs) > 0 {
			where = u.where(r.blk.Instrs[len(r.blk.Instrs)-1])
		}
		u.retWhere = append(u.retWhere, where)
	}
	// assert@call clauses that never matched a call are failures of the contract
	for k, ca := range ct.CallAsserts {
		if u.ordinals[fmt.Sprintf("callassert:%d", k)] == 0 {
			u.oblige("assert@call", tTrue, tFalse, "assert@call", shortName(ca.Callee)+".present", "the function calls "+ca.Callee)
		}
	}
}

func fnHasRecover(fn *ssa.Function) bool {
	for _, b := range fn.Blocks {
		for _, in := range b.Instrs {
			d, ok := in.(*ssa.Defer)
			if !ok {
				continue
			}
			var callee *ssa.Function
			if mc, ok := d.Call.Value.(*ssa.MakeClosure); ok {
				callee, _ = mc.Fn.(*ssa.Function)
			} else {
				callee = d.Call.StaticCallee()
			}
			if callee == nil {
				continue
			}
			for _, cb := range callee.Blocks {
				for _, ci := range cb.Instrs {
					if c, ok := ci.(*ssa.Call); ok {
						if bi, ok := c.Call.Value.(*ssa.Builtin); ok && bi.Name() == "recover" {
							return true
						}
					}
				}
			}
		}
	}
	return false
}

// ---- lemmas -------------------------------------------------------------------------------------

func verifyLemma(w *World, l *Lemma) (res *unitResult) {
	res = &unitResult{name: l.Pkg + ".lemma." + l.Name}
	short := strings.ReplaceAll(l.Pkg, w.Module+"/", "") + ".lemma." + l.Name
	u := newUnit(w, nil, short, nil)
	res.u = u
	defer func() {
		if r := recover(); r != nil {
			switch e := r.(type) {
			case unsupported:
				res.err = "outside the supported subset: " + e.msg
			case specError:
				res.err = "lemma does not apply: " + e.msg
			default:
				panic(r)
			}
		}
	}()
	st := &State{cells: map[*Cell]Val{}, heaps: map[string]Term{}, ghostCalled: map[string]Term{}}
	st.alloc = intLit(1)
	env := &Env{u: u, st: st, old: st, vars: map[string]Val{}, pkg: l.Pkg}
	for _, v := range l.Vars {
		t := u.fresh("l_"+v.Name, v.Sort)
		env.vars[v.Name] = Val{T: t}
		u.inputs = append(u.inputs, InputSym{Name: v.Name, Term: t, Kind: "lemmavar"})
	}
	for _, rq := range l.Requires {
		u.assume(tTrue, u.evalBool(rq.Expr, env))
	}
	for k, en := range l.Ensures {
		f := u.evalBool(en.Expr, env)
		pos := len(u.lines)
		o := u.oblige("lemma", tTrue, f, "ensures", fmt.Sprint(k), en.Src)
		// lemma clauses are independent of each other
		u.lines = u.lines[:pos]
		o.Pos = pos
	}
	u.retReach = []Term{tTrue}
	return
}

// ---- discharging --------------------------------------------------------------------------------

func (u *Unit) queryText(o *Obligation, extra []string, goal string) string {
	var b strings.Builder
	b.WriteString("(set-option :produce-models true)\n(set-logic ALL)\n")
	b.WriteString(prelude)
	var cds []string
	constArrDecls.Range(func(k, v interface{}) bool { cds = append(cds, v.(string)); return true })
	sort.Strings(cds)
	for _, d := range cds {
		b.WriteString(d)
		b.WriteString("\n")
	}
	for _, d := range u.decls {
		b.WriteString(d)
		b.WriteString("\n")
	}
	for _, l := range u.W.SpecLines {
		b.WriteString(l)
		b.WriteString("\n")
	}
	for _, l := range u.lines[:o.Pos] {
		b.WriteString(l)
		b.WriteString("\n")
	}
	for _, e := range extra {
		b.WriteString(e)
		b.WriteString("\n")
	}
	b.WriteString("; obligation " + o.Name + " : " + strings.ReplaceAll(o.Src, "\n", " ") + "\n")
	b.WriteString(goal)
	b.WriteString("\n(check-sat)\n")
	vals := u.replayValueTerms()
	if len(vals) > 0 {
		b.WriteString("(get-value (" + strings.Join(vals, " ") + "))\n")
	}
	return b.String()
}

func discharge(u *Unit, o *Obligation, workDir string, timeout int, known []KnownFinding, prop string) {
	goal := "(assert " + and(o.Guard, not(o.Formula)).S + ")"
	waitAll := *flagTier == "thorough"
	for _, k := range known {
		if k.Obligation == o.Name && k.Property == prop && k.Fixed == "" && k.Region == "" {
			// listed finding without a region: one attempt, no fallbacks (it is expected to fail)
			q := u.queryText(o, nil, goal)
			o.Result = runQuery(workDir, o.Name, q, timeout, false)
			if o.Result.Status == "unsat" {
				o.Status = "discharged"
			} else {
				o.Status = "undecided"
			}
			return
		}
	}
	if region, ok := u.regions[o.Name]; ok {
		// known finding with a failing region: the obligation must hold outside the region
		q := u.queryText(o, []string{"(assert " + not(region).S + ")"}, goal)
		o.Result = runQuery(workDir, o.Name+".outside", q, timeout, waitAll)
		q2 := u.queryText(o, []string{"(assert " + region.S + ")"}, goal)
		o.RegionResult = runQuery(workDir, o.Name+".inside", q2, timeout, false)
		o.HasRegion = true
	} else {
		q := u.queryText(o, nil, goal)
		o.Result = runQuery(workDir, o.Name, q, timeout, waitAll)
		if o.Result.Status == "unknown" {
			// a candidate counterexample from the quantifier-free part of the assumptions ...
			cr, ok := candidateModel(workDir, o.Name, q, u.smallModelHints())
			if ok {
				o.Candidate = &cr
			}
			switch {
			case cr.Status == "unsat":
				// proved from fewer assumptions (no quantified assumption used): still a proof
				o.Result = cr
				o.Result.Solver += " (quantifier-free assumptions only)"
			default:
				done := false
				for depth := 1; depth <= 2 && !done; depth++ {
					rr := runQuery(workDir, fmt.Sprintf("%s.rel%d", o.Name, depth), relevantQuery(q, depth), timeout, false)
					if rr.Status == "unsat" {
						o.Result = rr
						o.Result.Solver += fmt.Sprintf(" (assumptions within %d step(s) of the goal)", depth)
						done = true
					}
				}
				if done {
					break
				}
				wr := runQuery(workDir, o.Name+".weak", stripNested(q), timeout, false)
				if wr.Status == "unsat" {
					o.Result = wr
					o.Result.Solver += " (without nested-quantifier assumptions)"
					break
				}
				// ... and one retry at 6x the timeout before anything is reported
				// (skipped once several obligations have already failed: the run reports violations anyway)
				if failedSoFar.Load() < 4 {
					o.Result = runQuery(workDir, o.Name+".retry", q, timeout*6, true)
					o.Retried = true
				}
				if o.Result.Status != "unsat" {
					failedSoFar.Add(1)
				}
			}
		}
	}
	switch o.Result.Status {
	case "unsat":
		o.Status = "discharged"
	case "sat":
		o.Status = "refuted"
	case "error":
		o.Status = "error"
	default:
		o.Status = "undecided"
	}
	if waitAll {
		seen := map[string]bool{}
		for _, s := range o.Result.All {
			if s == "sat" || s == "unsat" {
				seen[s] = true
			}
		}
		if len(seen) > 1 {
			o.Status = "undecided"
			o.Result.Output = "back ends contradict each other: " + fmt.Sprint(o.Result.All)
		}
	}
}

// vacuityProbe checks that the assumptions accumulated for a unit are not contradictory: some
// return (or the lemma's premises) must be reachable.
func vacuityProbe(u *Unit, workDir string, timeout int) string {
	if len(u.retReach) == 0 {
		if u.Fn != nil {
			return "no return reached (function panics or loops on every path)"
		}
		return "ok"
	}
	pos := len(u.lines)
	if u.vacuityPos > 0 {
		pos = u.vacuityPos
	}
	o := &Obligation{Name: u.FnName + "#vacuity", Pos: pos}
	q := u.queryText(o, nil, "(assert "+or(u.retReach...).S+")")
	r := runQuery(workDir, o.Name, q, timeout, false)
	if r.Status == "unsat" {
		return "VACUOUS: assumptions are contradictory (no return is reachable)"
	}
	// each return separately: a return that the assumptions make unreachable means every postcondition
	// is vacuous on that path (legitimate for error paths a trusted contract excludes, fatal for the rest:
	// the contract has to say `opt deadreturns=allowed` to accept them)
	dead := []string{}
	if len(u.retReach) > 1 {
		var wg sync.WaitGroup
		res := make([]string, len(u.retReach))
		for i := range u.retReach {
			wg.Add(1)
			go func(i int) {
				defer wg.Done()
				oi := &Obligation{Name: fmt.Sprintf("%s#reach.return%d", u.FnName, i), Pos: pos}
				qi := u.queryText(oi, nil, "(assert "+u.retReach[i].S+")")
				res[i] = runQuery(workDir, oi.Name, qi, timeout, false).Status
			}(i)
		}
		wg.Wait()
		for i, s := range res {
			if s == "unsat" {
				w := fmt.Sprint(i)
				if i < len(u.retWhere) && u.retWhere[i] != "" {
					w = u.retWhere[i]
				}
				dead = append(dead, w)
			}
		}
	}
	deadNote := ""
	if len(dead) > 0 {
		deadNote = fmt.Sprintf("; DEAD returns (unreachable under the assumptions): %s of %d", strings.Join(dead, ","), len(u.retReach))
		if u.Contract == nil || u.Contract.Opts["deadreturns"] != "allowed" {
			return "VACUOUS: return(s) " + strings.Join(dead, ",") + " of " + fmt.Sprint(len(u.retReach)) + " are unreachable under the assumptions (postconditions hold vacuously there); say `opt deadreturns=allowed` if the excluded paths are error paths a trusted contract rules out"
		}
	}
	if r.Status == "sat" {
		return "ok (" + r.Solver + " found a terminating execution consistent with all assumptions)" + deadNote
	}
	return "ok? (no solver could construct a model; premises not shown contradictory)" + deadNote
}

// ---- report -------------------------------------------------------------------------------------

type evidence struct {
	PropertyID  string                 `json:"property_id"`
	Tier        string                 `json:"tier"`
	Seed        int                    `json:"seed"`
	Level       string                 `json:"level"`
	Coverage    map[string]interface{} `json:"coverage"`
	Assumptions []string               `json:"assumptions"`
	WallS       float64                `json:"wall_s"`
	Violations  int                    `json:"violations"`
}

func report(prop string, cfg PropConfig, w *World, results []*unitResult, all []*Obligation, oblUnit map[*Obligation]*Unit,
	infra []string, known []KnownFinding, workDir string, t0 time.Time, genSecs float64) int {
	sort.Slice(all, func(i, j int) bool { return all[i].Name < all[j].Name })
	var violations []string
	var knownLines []string
	discharged, recoveredPanics, knownOpen := 0, 0, 0
	perBackend := map[string]int{}
	solverSecs := map[string]float64{}
	var samples []map[string]interface{}
	var failing []map[string]interface{}
	isKnown := func(name string) *KnownFinding {
		for i := range known {
			if known[i].Obligation == name && known[i].Property == prop && known[i].Fixed == "" {
				return &known[i]
			}
		}
		return nil
	}
	replayDir := filepath.Join(*flagVerif, "replay", prop)
	os.MkdirAll(replayDir, 0o755)
	for _, o := range all {
		if o.Result.Solver != "" {
			perBackend[o.Result.Solver]++
			solverSecs[o.Result.Solver] += o.Result.Seconds
		}
		kf := isKnown(o.Name)
		switch {
		case o.HasRegion:
			if o.Status == "discharged" {
				discharged++
				if o.RegionResult.Status != "unsat" && kf != nil {
					knownLines = append(knownLines, fmt.Sprintf("KNOWN-FINDING: property=%s %s %s", prop, o.Name, kf.What))
				}
			} else {
				violations, infra = addViolation(violations, infra, reportViolation(prop, o, oblUnit[o], replayDir, w), o, oblUnit[o])
			}
		case o.Status == "discharged":
			discharged++
		case kf != nil && kf.Region == "":
			knownLines = append(knownLines, fmt.Sprintf("KNOWN-FINDING: property=%s %s %s", prop, o.Name, kf.What))
			knownOpen++ // a listed finding: neither discharged nor counted among the obligations claimed
		case o.Context == "recovered":
			recoveredPanics++
			discharged++
			failing = append(failing, map[string]interface{}{"obligation": o.Name, "status": o.Status, "note": "panic here is caught by a deferred recover: input dropped", "where": o.Where})
		default:
			violations, infra = addViolation(violations, infra, reportViolation(prop, o, oblUnit[o], replayDir, w), o, oblUnit[o])
		}
		if len(samples) < 12 && o.Result.Solver != "" && o.Result.Solver != "trivial" {
			samples = append(samples, map[string]interface{}{"obligation": o.Name, "clause": o.Src, "status": o.Status, "backend": o.Result.Solver, "seconds": round3(o.Result.Seconds), "where": o.Where})
		}
	}
	var functions []string
	trusted := map[string]bool{}
	var vac []string
	for _, r := range results {
		if r.err != "" || r.u == nil {
			continue
		}
		functions = append(functions, r.u.FnName)
		for n := range r.u.notes {
			trusted[n] = true
		}
		vac = append(vac, r.u.FnName+": "+r.vacuity)
		if strings.HasPrefix(r.vacuity, "VACUOUS") {
			infra = append(infra, r.u.FnName+": "+r.vacuity)
		}
	}
	for _, c := range w.Contracts {
		if c.Kind == "trusted" {
			trusted["trusted contract (assumed, not verified): "+c.Name] = true
		}
	}
	trusted["gocv prelude axioms (byte strings, slices, interfaces, bit operations)"] = true
	trusted["go/ssa (x/tools v0.29.0) translation of the working tree; sequential execution of each function"] = true
	for _, n := range cfg.Notes {
		trusted[n] = true
	}
	var tb []string
	for t := range trusted {
		tb = append(tb, t)
	}
	sort.Strings(tb)
	sort.Strings(functions)
	for _, l := range knownLines {
		fmt.Println(l)
	}
	for _, v := range violations {
		fmt.Println(v)
	}
	wall := time.Since(t0).Seconds()
	level := cfg.Level
	if level == "" {
		level = "proof"
	}
	ev := evidence{PropertyID: prop, Tier: *flagTier, Seed: seedEnv(), Level: level, WallS: round3(wall), Violations: len(violations)}
	ev.Coverage = map[string]interface{}{
		"obligations":              len(all) - knownOpen,
		"known_finding_obligations": knownOpen,
		"discharged":               discharged,
		"checker_cmd":              fmt.Sprintf("/verif/bin/gocv -prop %s -tier %s (VC generation over go/ssa of /repo's working tree; back ends z3 4.8.12, z3 5.1.0, cvc5 1.0.3 raced per obligation)", prop, *flagTier),
		"trusted_base":             tb,
		"functions_under_contract": functions,
		"per_backend_discharged":   perBackend,
		"solver_seconds":           roundMap(solverSecs),
		"load_seconds":             round3(w.LoadSecs),
		"vcgen_seconds":            round3(genSecs - w.LoadSecs),
		"samples":                  samples,
		"vacuity":                  vac,
		"recovered_panics":         recoveredPanics,
		"not_discharged":           failing,
		"known_findings_reported":  knownLines,
		"infrastructure_problems":  infra,
		"explanation":              "every obligation is generated from the current source of /repo and discharged by an SMT back end; callers are checked against callee contracts",
	}
	ev.Assumptions = tb
	if !*flagNoEvid {
		os.MkdirAll(filepath.Join(*flagVerif, "evidence"), 0o755)
		d, _ := json.MarshalIndent(ev, "", " ")
		os.WriteFile(filepath.Join(*flagVerif, "evidence", prop+".json"), d, 0o644)
	}
	if !*flagKeep && len(violations) == 0 && len(infra) == 0 {
		os.RemoveAll(workDir)
	}
	fmt.Printf("gocv: property=%s tier=%s functions=%d obligations=%d discharged=%d violations=%d known=%d wall=%.1fs\n",
		prop, *flagTier, len(functions), len(all), discharged, len(violations), len(knownLines), wall)
	if *flagVerbose || len(violations) > 0 {
		for _, o := range all {
			if o.Status != "discharged" || *flagVerbose {
				fmt.Printf("  %-12s %-9s %6.2fs %s   [%s] %s\n", o.Status, o.Result.Solver, o.Result.Seconds, o.Name, o.Where, o.Src)
			}
		}
	}
	if *flagExpect != "" {
		for _, o := range all {
			if o.Status != "discharged" && strings.Contains(o.Name, *flagExpect) {
				fmt.Println("selftest: expected failure observed:", o.Name)
				return 0
			}
		}
		fmt.Println("selftest: expected failure NOT observed:", *flagExpect)
		return 1
	}
	if len(violations) > 0 {
		for _, i := range infra {
			fmt.Printf("UNDECIDED property=%s reason=%s\n", prop, i)
		}
		return 1
	}
	if len(infra) > 0 {
		for _, i := range infra {
			fmt.Printf("UNDECIDED property=%s reason=%s\n", prop, i)
		}
		return 2
	}
	return 0
}

func reportViolation(prop string, o *Obligation, u *Unit, replayDir string, w *World) string {
	path := filepath.Join(replayDir, sanitize(o.Name)+".txt")
	var b strings.Builder
	fmt.Fprintf(&b, "property: %s\nobligation: %s\nclause: %s\nwhere: %s\nstatus: %s\nbackends: %v\n", prop, o.Name, o.Src, o.Where, o.Status, o.Result.All)
	suffix := " no-failing-input-found"
	var vals map[string]string
	src := ""
	if o.Status == "refuted" {
		vals, src = parseValues(o.Result.Output), o.Result.Solver
	} else if o.Candidate != nil {
		vals, src = parseValues(o.Candidate.Output), o.Candidate.Solver+", candidate from the quantifier-free weakening of the assumptions"
	}
	if vals != nil {
		fmt.Fprintf(&b, "counterexample (%s):\n", src)
		for _, in := range o.Inputs {
			fmt.Fprintf(&b, "  %s = %s\n", in.Name, vals[in.Term.S])
		}
		if rp, ok := tryReplay(prop, o, u, vals, replayDir, w); ok {
			path = rp
			suffix = ""
		}
	}
	if suffix != "" {
		// no model, or the model did not reproduce: bounded search for a failing input by running
		// the executable form of the clause on enumerated small inputs (real code, real clause)
		if rp, ok := tryReplay(prop, o, u, nil, replayDir, w); ok {
			fmt.Fprintf(&b, "failing input found by bounded enumeration of small inputs (see %s)\n", rp)
			path = rp
			suffix = ""
		}
	}
	o.Reproduced = suffix == ""
	fmt.Fprintf(&b, "solver output:\n%s\n", truncate(o.Result.Output, 4000))
	if suffix != "" {
		os.WriteFile(path, []byte(b.String()), 0o644)
	} else {
		os.WriteFile(path+".txt", []byte(b.String()), 0o644)
	}
	return fmt.Sprintf("VIOLATION property=%s replay=%s obligation=%s%s", prop, path, o.Name, suffix)
}

func seedEnv() int {
	var n int
	fmt.Sscan(os.Getenv("VERIF_SEED"), &n)
	return n
}

func round3(f float64) float64 { return float64(int(f*1000+0.5)) / 1000 }

func roundMap(m map[string]float64) map[string]float64 {
	r := map[string]float64{}
	for k, v := range m {
		r[k] = round3(v)
	}
	return r
}
