package main

import (
	"fmt"
	"go/types"
	"strings"
)

type modelFn func(u *Unit, st *State, args []Val, resT types.Type, reach Term) (Val, bool)

func (u *Unit) bytesOfVal(st *State, v Val) Term {
	if v.T.Sort == "Bytes" {
		return v.T
	}
	return u.bytesOf(st, v.T)
}

// bytesOf introduces the byte-string value of a []byte term in the current heap: a constant with
// its length and (pointwise) contents. Cached per (heap, slice) pair.
func (u *Unit) bytesOf(st *State, s Term) Term {
	if s.S == "nilslice" {
		return Term{"bempty", "Bytes"}
	}
	if x := s.st(); x != nil && x.kind == 'i' {
		// distribute over a conditional slice: the branches usually already have their constants
		return ite(x.a, u.bytesOf(st, x.b), u.bytesOf(st, x.c))
	}
	_, h := u.memHeap(st, types.Typ[types.Uint8])
	return u.bytesOfHeap(h, s)
}

// bytesOfHeap: the byte-string value of slice s in the byte memory h.
func (u *Unit) bytesOfHeap(h Term, s Term) Term {
	if hs := h.st(); hs != nil && hs.kind == 'A' {
		// memory after an allocate-only call: arrays that existed before read the same bytes
		return ite(app("Bool", "<", sArr(s), hs.a), u.bytesOfHeap(hs.b, s), u.bytesOfHeap1(h, s))
	}
	return u.bytesOfHeap1(h, s)
}

func (u *Unit) bytesOfHeap1(h Term, s Term) Term {
	key := h.S + "|" + s.S
	if u.bytesCache == nil {
		u.bytesCache = map[string]Term{}
	}
	if b, ok := u.bytesCache[key]; ok {
		return b
	}
	for _, tok := range tokenize(s.S) {
		if u.boundNow[tok] {
			// the slice depends on a quantified variable: use a per-heap function with axioms that
			// quantify over slices and indices (never over arrays)
			f, ok := u.bytesCache["fn|"+h.S]
			if !ok {
				f = Term{u.sym("bytesAt"), "Bytes"}
				u.lines = append(u.lines, fmt.Sprintf("(declare-fun %s (Slice) Bytes)", f.S))
				u.assume(tTrue, Term{fmt.Sprintf("(forall ((s Slice)) (! (=> (>= (slen s) 0) (= (blen (%s s)) (slen s))) :pattern ((%s s))))", f.S, f.S), "Bool"})
				u.assume(tTrue, Term{fmt.Sprintf("(forall ((s Slice) (i Int)) (! (=> (and (<= 0 i) (< i (slen s))) (= (select (barr (%s s)) i) %s)) :pattern ((select (barr (%s s)) i))))",
					f.S, sel(sel(h, Term{"(sarr s)", "Int"}), Term{"(+ (soff s) i)", "Int"}).S, f.S), "Bool"})
				u.bytesCache["fn|"+h.S] = f
				// constants introduced earlier for closed slices in the same heap denote the same values
				for k, b := range u.bytesCache {
					if strings.HasPrefix(k, h.S+"|") {
						u.assume(tTrue, eq2(b, app("Bytes", f.S, Term{k[len(h.S)+1:], "Slice"})))
					}
				}
			}
			return app("Bytes", f.S, s)
		}
	}
	b := u.fresh("bytes", "Bytes")
	ln, off := u.def(sLen(s)), u.def(sOff(s))
	row := u.def(sel(h, u.def(sArr(s))))
	u.assume(tTrue, eq2(app("Int", "blen", b), ln))
	// the value is a function of (heap, array, offset, length): equal slices read equal byte strings
	idf, ok := u.bytesCache["id|"+h.S]
	if !ok {
		idf = Term{u.sym("bytesId"), "Bytes"}
		u.lines = append(u.lines, fmt.Sprintf("(declare-fun %s (Int Int Int) Bytes)", idf.S))
		u.bytesCache["id|"+h.S] = idf
	}
	u.assume(tTrue, eq2(b, app("Bytes", idf.S, u.def(sArr(s)), off, ln)))
	u.assume(tTrue, Term{fmt.Sprintf("(forall ((i Int)) (! (=> (and (<= 0 i) (< i %s)) (= (select (barr %s) i) %s)) :pattern ((select (barr %s) i))))",
		ln.S, b.S, sel(row, Term{fmt.Sprintf("(+ %s i)", off.S), "Int"}).S, b.S), "Bool"})
	if row.st() == nil {
		u.assume(tTrue, Term{fmt.Sprintf("(forall ((k Int)) (! (=> (and (<= %s k) (< k (+ %s %s))) (= (select %s k) (select (barr %s) (- k %s)))) :pattern ((select %s k))))",
			off.S, off.S, ln.S, row.S, b.S, off.S, row.S), "Bool"})
	}
	if f, ok := u.bytesCache["fn|"+h.S]; ok {
		u.assume(tTrue, eq2(b, app("Bytes", f.S, s)))
	}
	// ground instances of the contents axiom, used only by candidate-model queries
	for k := 0; k < replayBytes; k++ {
		u.groundHints = append(u.groundHints, fmt.Sprintf("(assert (=> (< %d %s) (= (select (barr %s) %d) %s)))", k, ln.S, b.S, k, sel(row, Term{fmt.Sprintf("(+ %s %d)", off.S, k), "Int"}).S))
	}
	u.groundHints = append(u.groundHints, fmt.Sprintf("(assert (<= %s %d))", ln.S, replayBytes))
	u.bytesCache[key] = b
	return b
}

func eq2(a, b Term) Term { return app("Bool", "=", a, b) }

func boolRes(u *Unit, t Term, resT types.Type) (Val, bool) {
	return Val{T: u.def(t), Typ: resT}, true
}

// uninterp applies an uninterpreted (deterministic) function symbol declared on demand.
func (u *Unit) uninterp(name string, ret string, args ...Term) Term {
	var sorts []string
	for _, a := range args {
		sorts = append(sorts, a.Sort)
	}
	u.declareOnce(name, fmt.Sprintf("(declare-fun %s (%s) %s)", name, strings.Join(sorts, " "), ret))
	return app(ret, name, args...)
}

func freshNonNilErr(u *Unit, st *State, resT types.Type) Val {
	e := u.fresh("err", "Iface")
	u.assume(tTrue, not(eq(e, Term{"inil", "Iface"})))
	return Val{T: e, Typ: resT}
}

var pureModels map[string]modelFn

func init() {
	pureModels = map[string]modelFn{
		"bytes.Equal": func(u *Unit, st *State, a []Val, rt types.Type, r Term) (Val, bool) {
			return boolRes(u, eq(u.bytesOfVal(st, a[0]), u.bytesOfVal(st, a[1])), rt)
		},
		"bytes.Compare": func(u *Unit, st *State, a []Val, rt types.Type, r Term) (Val, bool) {
			x, y := u.def(u.bytesOfVal(st, a[0])), u.def(u.bytesOfVal(st, a[1]))
			res := u.fresh("cmp", "Int")
			u.assume(tTrue, and(
				app("Bool", "=", app("Bool", "<", res, intLit(0)), app("Bool", "blexlt", x, y)),
				app("Bool", "=", eq(res, intLit(0)), eq(x, y)),
				app("Bool", "=", app("Bool", ">", res, intLit(0)), app("Bool", "blexlt", y, x)),
				app("Bool", "<=", intLit(-1), res), app("Bool", "<=", res, intLit(1))))
			u.note("bytes.Compare: trusted model (sign of result = lexicographic order, total)")
			return Val{T: res, Typ: rt}, true
		},
		"bytes.HasPrefix": func(u *Unit, st *State, a []Val, rt types.Type, r Term) (Val, bool) {
			return boolRes(u, app("Bool", "bhasprefix", u.def(u.bytesOfVal(st, a[0])), u.def(u.bytesOfVal(st, a[1]))), rt)
		},
		"strings.HasPrefix": func(u *Unit, st *State, a []Val, rt types.Type, r Term) (Val, bool) {
			return boolRes(u, app("Bool", "bhasprefix", a[0].T, a[1].T), rt)
		},
		"strings.HasSuffix": func(u *Unit, st *State, a []Val, rt types.Type, r Term) (Val, bool) {
			return boolRes(u, u.uninterp("bhassuffix", "Bool", a[0].T, a[1].T), rt)
		},
		"strings.Contains": func(u *Unit, st *State, a []Val, rt types.Type, r Term) (Val, bool) {
			return boolRes(u, u.uninterp("bcontains", "Bool", a[0].T, a[1].T), rt)
		},
		"strings.ToLower": func(u *Unit, st *State, a []Val, rt types.Type, r Term) (Val, bool) {
			return Val{T: u.def(u.uninterp("btolower", "Bytes", a[0].T)), Typ: rt}, true
		},
		"strings.ToUpper": func(u *Unit, st *State, a []Val, rt types.Type, r Term) (Val, bool) {
			return Val{T: u.def(u.uninterp("btoupper", "Bytes", a[0].T)), Typ: rt}, true
		},
		"strings.TrimSpace": func(u *Unit, st *State, a []Val, rt types.Type, r Term) (Val, bool) {
			return Val{T: u.def(u.uninterp("btrimspace", "Bytes", a[0].T)), Typ: rt}, true
		},
		"errors.New": func(u *Unit, st *State, a []Val, rt types.Type, r Term) (Val, bool) {
			return freshNonNilErr(u, st, rt), true
		},
		"fmt.Errorf": func(u *Unit, st *State, a []Val, rt types.Type, r Term) (Val, bool) {
			return freshNonNilErr(u, st, rt), true
		},
		"github.com/pkg/errors.New": func(u *Unit, st *State, a []Val, rt types.Type, r Term) (Val, bool) {
			return freshNonNilErr(u, st, rt), true
		},
		"github.com/pkg/errors.Errorf": func(u *Unit, st *State, a []Val, rt types.Type, r Term) (Val, bool) {
			return freshNonNilErr(u, st, rt), true
		},
		"github.com/pkg/errors.Wrap":      wrapErr,
		"github.com/pkg/errors.Wrapf":     wrapErr,
		"github.com/pkg/errors.WithStack": wrapErr,
		"github.com/pkg/errors.Cause":     wrapErr,
		"sync/atomic.LoadInt32":  atomicLoad,
		"sync/atomic.LoadInt64":  atomicLoad,
		"sync/atomic.LoadUint32": atomicLoad,
		"sync/atomic.LoadUint64": atomicLoad,
		"sync/atomic.StoreInt32": atomicStore,
		"sync/atomic.StoreInt64": atomicStore,
		"sync/atomic.StoreUint32": atomicStore,
		"sync/atomic.StoreUint64": atomicStore,
		"sync/atomic.AddInt32":   atomicAdd,
		"sync/atomic.AddInt64":   atomicAdd,
		"sync/atomic.AddUint32":  atomicAdd,
		"sync/atomic.AddUint64":  atomicAdd,
		"sync/atomic.CompareAndSwapInt32": atomicCAS,
		"sync/atomic.CompareAndSwapInt64": atomicCAS,
		"sync/atomic.CompareAndSwapUint32": atomicCAS,
	}
}

// wrapErr: pkg/errors wrappers return nil exactly when the wrapped error is nil; the result is the
// deterministic function errwrap(err) otherwise (so that Cause(Wrap(e)) style chains stay related).
func wrapErr(u *Unit, st *State, a []Val, rt types.Type, r Term) (Val, bool) {
	e := u.uninterp("errwrap", "Iface", a[0].T)
	u.note("github.com/pkg/errors Wrap/Wrapf/Cause: result is nil iff the argument is nil (trusted model)")
	res := u.def(ite(eq(a[0].T, Term{"inil", "Iface"}), Term{"inil", "Iface"}, e))
	u.assume(tTrue, implies(not(eq(a[0].T, Term{"inil", "Iface"})), not(eq(e, Term{"inil", "Iface"}))))
	return Val{T: res, Typ: rt}, true
}

func ptrArgLoc(u *Unit, st *State, p Val) *Loc {
	if p.Loc != nil {
		return p.Loc
	}
	return u.pointerLoc(st, p, p.Typ)
}

func atomicLoad(u *Unit, st *State, a []Val, rt types.Type, r Term) (Val, bool) {
	v := u.load(st, ptrArgLoc(u, st, a[0]))
	v.T = u.def(v.T)
	u.assume(tTrue, u.typeInv(st, v.T, rt))
	v.Typ = rt
	return v, true
}

func atomicStore(u *Unit, st *State, a []Val, rt types.Type, r Term) (Val, bool) {
	u.store(st, ptrArgLoc(u, st, a[0]), a[1])
	return Val{Typ: rt}, true
}

func atomicAdd(u *Unit, st *State, a []Val, rt types.Type, r Term) (Val, bool) {
	l := ptrArgLoc(u, st, a[0])
	v := u.load(st, l)
	n := Val{T: u.wrap(u.def(app("Int", "+", v.T, a[1].T)), rt), Typ: rt}
	u.store(st, l, n)
	return n, true
}

func atomicCAS(u *Unit, st *State, a []Val, rt types.Type, r Term) (Val, bool) {
	l := ptrArgLoc(u, st, a[0])
	v := u.load(st, l)
	ok := u.def(eq(v.T, a[1].T))
	u.store(st, l, Val{T: u.def(ite(ok, a[2].T, v.T)), Typ: v.Typ})
	return Val{T: ok, Typ: rt}, true
}

// purePackages: functions of these packages do not touch modelled state; results are arbitrary.
var purePackages = []string{"strings.", "strconv.", "errors.", "unicode.", "unicode/utf8.", "math.", "math/bits.", "time.", "(time.",
	"path.", "path/filepath.", "encoding/hex.", "encoding/binary.", "fmt.Sprint", "fmt.Sprintf", "fmt.Errorf", "math/rand.", "runtime.NumCPU",
	"runtime.GOMAXPROCS", "os.Getenv", "encoding/base64.", "(*math/big.Int).Sign", "(*math/big.Int).Cmp", "(*math/big.Int).BitLen", "bytes.",
	"(*time.", "crypto/sha256.Sum256", "crypto/rand.", "net.ParseIP", "(net.IP).", "net.SplitHostPort", "sort.Search", "reflect.TypeOf", "reflect.DeepEqual",
	"github.com/golang/protobuf/proto.Size", "google.golang.org/protobuf/proto.Size", "github.com/golang/protobuf/proto.Equal", "github.com/golang/protobuf/proto.Clone"}

func isPureExternal(name string) bool {
	if strings.HasPrefix(name, "(*bytes.Buffer") || strings.HasPrefix(name, "(*strings.Builder") {
		return false
	}
	for _, p := range purePackages {
		if strings.HasPrefix(name, p) {
			return true
		}
	}
	return false
}
