package main

import (
	"fmt"
	"go/constant"
	"go/token"
	"go/types"
	"strings"

	"golang.org/x/tools/go/ssa"
)

// execInstr executes one instruction; it returns true when the path ends (return / panic).
func (u *Unit) execInstr(fr *Frame, in ssa.Instruction, st *State, reach *Term) bool {
	switch i := in.(type) {
	case *ssa.Alloc:
		u.execAlloc(fr, i, st)
	case *ssa.Store:
		addr := u.value(fr, i.Addr)
		v := u.value(fr, i.Val)
		l := u.derefLoc(fr, st, addr, i.Addr.Type(), *reach, "store")
		u.store(st, l, v)
	case *ssa.UnOp:
		fr.vals[i] = u.execUnOp(fr, i, st, *reach)
	case *ssa.BinOp:
		x, y := u.value(fr, i.X), u.value(fr, i.Y)
		fr.vals[i] = u.binop(st, i.Op, x, y, i.X.Type(), i.Type(), *reach)
	case *ssa.FieldAddr:
		px := u.value(fr, i.X)
		pt := i.X.Type().Underlying().(*types.Pointer).Elem()
		ft := i.Type().(*types.Pointer).Elem()
		if px.Loc != nil {
			sst, key, ok := u.transparentStruct(pt)
			if !ok || px.Loc.Kind == LOpaque {
				fr.vals[i] = Val{Loc: &Loc{Kind: LOpaque, Elem: ft}, Typ: i.Type()}
				break
			}
			if px.Loc.Kind == LStruct {
				fr.vals[i] = Val{Loc: &Loc{Kind: LField, Base: px.Loc.Base, ST: sst, SKey: key, Field: i.Field, Elem: ft}, Typ: i.Type()}
				break
			}
			fr.vals[i] = Val{Loc: &Loc{Kind: LSub, Parent: px.Loc, ST: sst, SKey: key, Field: i.Field, Elem: ft}, Typ: i.Type()}
			break
		}
		if !px.NonNil {
			u.oblige("safety", *reach, not(eq(px.T, intLit(0))), "safety.nil", "", "nil dereference in field access ."+fieldName(pt, i.Field))
		}
		sst, key, ok := u.transparentStruct(pt)
		if !ok {
			fr.vals[i] = Val{Loc: &Loc{Kind: LOpaque, Elem: ft}, Typ: i.Type()}
			break
		}
		fr.vals[i] = Val{Loc: &Loc{Kind: LField, Base: px.T, ST: sst, SKey: key, Field: i.Field, Elem: ft}, Typ: i.Type()}
	case *ssa.Field:
		x := u.value(fr, i.X)
		sst, key, ok := u.transparentStruct(i.X.Type())
		if !ok || x.T.Sort == "Opaque" {
			fr.vals[i] = u.freshVal(st, "fld", i.Type())
			break
		}
		fr.vals[i] = Val{T: u.def(u.structGet(x.T, sst, key, i.Field)), Typ: i.Type()}
	case *ssa.IndexAddr:
		fr.vals[i] = u.execIndexAddr(fr, i, st, *reach)
	case *ssa.Index:
		x, idx := u.value(fr, i.X), u.value(fr, i.Index)
		switch t := i.X.Type().Underlying().(type) {
		case *types.Array:
			u.oblige("safety", *reach, and(app("Bool", "<=", intLit(0), idx.T), app("Bool", "<", idx.T, intLit(t.Len()))), "safety.index", "", "array index in range")
			fr.vals[i] = Val{T: u.def(sel(x.T, idx.T)), Typ: i.Type()}
		case *types.Basic: // string
			u.oblige("safety", *reach, and(app("Bool", "<=", intLit(0), idx.T), app("Bool", "<", idx.T, app("Int", "blen", x.T))), "safety.index", "", "string index in range")
			fr.vals[i] = Val{T: u.def(app("Int", "bat", x.T, idx.T)), Typ: i.Type()}
		default:
			u.unsupportedf("Index on %s", i.X.Type())
		}
	case *ssa.Lookup:
		fr.vals[i] = u.execLookup(fr, i, st, *reach)
	case *ssa.MapUpdate:
		m, k, v := u.value(fr, i.Map), u.value(fr, i.Key), u.value(fr, i.Value)
		mt := i.Map.Type().Underlying().(*types.Map)
		u.oblige("safety", *reach, not(eq(m.T, intLit(0))), "safety.nilmap", "", "assignment to entry in nil map")
		dn, dh, vn, vh := u.mapHeaps(st, mt)
		kt := u.termOf(k)
		u.mapLenStep(st, mt, u.def(sel(dh, m.T)), u.def(sto(sel(dh, m.T), kt, tTrue)), kt, true)
		st.heaps[dn] = u.def(sto(dh, m.T, sto(sel(dh, m.T), kt, tTrue)))
		st.heaps[vn] = u.def(sto(vh, m.T, sto(sel(vh, m.T), kt, u.termOf(v))))
	case *ssa.Slice:
		fr.vals[i] = u.execSlice(fr, i, st, *reach)
	case *ssa.MakeSlice:
		ln, cp := u.value(fr, i.Len), u.value(fr, i.Cap)
		u.oblige("safety", *reach, and(app("Bool", "<=", intLit(0), ln.T), app("Bool", "<=", ln.T, cp.T)), "safety.make", "", "make: len and cap in range")
		elem := i.Type().Underlying().(*types.Slice).Elem()
		fr.vals[i] = Val{T: u.makeSlice(st, elem, ln.T, cp.T), Typ: i.Type()}
	case *ssa.MakeMap:
		mt := i.Type().Underlying().(*types.Map)
		r := u.newRef(st)
		dn, dh, _, _ := u.mapHeaps(st, mt)
		ks := u.sortOf(mt.Key())
		st.heaps[dn] = u.def(sto(dh, r, constArray(arraySort(ks, "Bool"), tFalse)))
		u.assume(tTrue, eq(app("Int", u.mapLenFn(st, mt), constArray(arraySort(ks, "Bool"), tFalse)), intLit(0)))
		fr.vals[i] = Val{T: r, Typ: i.Type()}
	case *ssa.MakeChan:
		fr.vals[i] = Val{T: u.newRef(st), Typ: i.Type()}
		u.note("channels are opaque references (sequential view)")
	case *ssa.MakeInterface:
		x := u.value(fr, i.X)
		bx := x
		bx.Typ = i.X.Type()
		fr.vals[i] = Val{T: u.def(u.boxIface(u.termOf(x), i.X.Type())), Typ: i.Type(), Boxed: &bx}
	case *ssa.MakeClosure:
		r := u.newRef(st)
		v := Val{T: r, Typ: i.Type(), Fn: i.Fn.(*ssa.Function)}
		for _, b := range i.Bindings {
			v.Bindings = append(v.Bindings, u.value(fr, b))
		}
		fr.vals[i] = v
	case *ssa.ChangeType:
		v := u.value(fr, i.X)
		v.Typ = i.Type()
		fr.vals[i] = v
	case *ssa.ChangeInterface:
		v := u.value(fr, i.X)
		v.Typ = i.Type()
		fr.vals[i] = v
	case *ssa.Convert:
		fr.vals[i] = u.convert(st, u.value(fr, i.X), i.X.Type(), i.Type(), *reach)
	case *ssa.MultiConvert:
		fr.vals[i] = u.convert(st, u.value(fr, i.X), i.X.Type(), i.Type(), *reach)
	case *ssa.SliceToArrayPointer:
		u.unsupportedf("SliceToArrayPointer")
	case *ssa.TypeAssert:
		fr.vals[i] = u.execTypeAssert(fr, i, st, *reach)
	case *ssa.Extract:
		t := u.value(fr, i.Tuple)
		if i.Index >= len(t.Tup) {
			u.unsupportedf("extract %d of %d", i.Index, len(t.Tup))
		}
		fr.vals[i] = t.Tup[i.Index]
	case *ssa.Range:
		x := u.value(fr, i.X)
		fr.vals[i] = Val{T: u.termOf(x), Typ: i.X.Type()}
		u.initRange(st, i)
	case *ssa.Next:
		fr.vals[i] = u.execNext(fr, i, st, *reach)
	case *ssa.Call:
		res := u.execCall(fr, i, i.Common(), st, reach)
		fr.vals[i] = res
		u.recordCall(fr, st, i.Common(), res)
	case *ssa.Defer:
		if i.Call.IsInvoke() || !isNoopCall(u, &i.Call) {
			st.defers = append(st.defers, deferred{cond: *reach, call: &i.Call, fr: fr, pos: i})
		}
	case *ssa.RunDefers:
		for k := len(st.defers) - 1; k >= 0; k-- {
			d := st.defers[k]
			if d.fr != fr {
				continue
			}
			u.runDeferred(d, st, *reach)
		}
	case *ssa.Go:
		u.execGo(fr, i, st)
	case *ssa.Send:
		u.note("channel send is a no-op (sequential view)")
	case *ssa.Select:
		u.note("select: non-deterministic choice with arbitrary received values (sequential view)")
		u.havocConcurrent(fr, st, "select")
		fr.vals[i] = u.freshVal(st, "select", i.Type())
	case *ssa.Panic:
		u.execPanic(fr, i, st, *reach)
		return true
	case *ssa.Return:
		var rs []Val
		for _, r := range i.Results {
			rs = append(rs, u.value(fr, r))
		}
		fr.rets = append(fr.rets, retInfo{*reach, rs, st, i.Block()})
		return true
	case *ssa.If, *ssa.Jump:
	case *ssa.DebugRef:
	default:
		u.unsupportedf("instruction %T", in)
	}
	return false
}

func fieldName(t types.Type, i int) string {
	if st, ok := t.Underlying().(*types.Struct); ok && i < st.NumFields() {
		return st.Field(i).Name()
	}
	return fmt.Sprint(i)
}

func (u *Unit) execAlloc(fr *Frame, a *ssa.Alloc, st *State) {
	elem := a.Type().(*types.Pointer).Elem()
	if a.Comment == "defer$stack" {
		fr.vals[a] = Val{Loc: &Loc{Kind: LOpaque, Elem: elem}, Typ: a.Type()}
		return
	}
	if allocIsCell(a) {
		c := fr.cells[a]
		if c == nil {
			u.cellSeq++
			c = &Cell{Name: a.Comment, Typ: elem, id: u.cellSeq, blk: a.Block()}
			fr.cells[a] = c
			fr.byName[a.Comment] = append(fr.byName[a.Comment], c)
		}
		st.cells[c] = Val{T: u.zeroOf(elem), Typ: elem}
		fr.vals[a] = Val{Loc: &Loc{Kind: LCell, Cell: c, Elem: elem}, Typ: a.Type()}
		return
	}
	r := u.newRef(st)
	l := u.pointerLoc(st, Val{T: r}, a.Type())
	if l.Kind != LOpaque {
		u.store(st, l, Val{T: u.zeroOf(elem), Typ: elem})
	}
	fr.vals[a] = Val{T: r, Typ: a.Type(), NonNil: true}
	fr.boxed = append(fr.boxed, boxedLocal{a, r})
}

// derefLoc returns the location a pointer value designates, with a nil check for pointer terms.
func (u *Unit) derefLoc(fr *Frame, st *State, p Val, ptrType types.Type, reach Term, what string) *Loc {
	if p.Loc != nil {
		return p.Loc
	}
	if p.NonNil {
		return u.pointerLoc(st, p, ptrType)
	}
	u.oblige("safety", reach, not(eq(p.T, intLit(0))), "safety.nil", "", "nil dereference ("+what+")")
	return u.pointerLoc(st, p, ptrType)
}

func (u *Unit) execUnOp(fr *Frame, i *ssa.UnOp, st *State, reach Term) Val {
	x := u.value(fr, i.X)
	switch i.Op {
	case token.MUL:
		l := u.derefLoc(fr, st, x, i.X.Type(), reach, "load")
		v := u.load(st, l)
		if v.Loc != nil || v.Tup != nil || v.Fn != nil {
			return v
		}
		if l.Kind != LCell {
			v.T = u.def(v.T)
			u.assume(tTrue, u.typeInv(st, v.T, i.Type()))
		}
		v.Typ = i.Type()
		return v
	case token.NOT:
		return Val{T: u.def(not(x.T)), Typ: i.Type()}
	case token.SUB:
		if x.T.Sort != "Int" {
			return u.freshVal(st, "neg", i.Type())
		}
		r := app("Int", "-", x.T)
		return Val{T: u.arith(st, r, i.Type(), reach, "negation"), Typ: i.Type()}
	case token.XOR:
		if x.T.Sort != "Int" {
			return u.freshVal(st, "not", i.Type())
		}
		lo, hi, _ := intRange(i.Type())
		if lo == "0" {
			return Val{T: u.def(app("Int", "-", bigLit(hi), x.T)), Typ: i.Type()}
		}
		return Val{T: u.def(app("Int", "-", app("Int", "-", x.T), intLit(1))), Typ: i.Type()}
	case token.ARROW:
		u.note("channel receive yields an arbitrary value and arbitrary heap effects (sequential view)")
		u.havocConcurrent(fr, st, "recv")
		if i.CommaOk {
			elem := i.X.Type().Underlying().(*types.Chan).Elem()
			return Val{Tup: []Val{u.freshVal(st, "recv", elem), u.freshVal(st, "recvok", types.Typ[types.Bool])}, Typ: i.Type()}
		}
		return u.freshVal(st, "recv", i.Type())
	}
	u.unsupportedf("unop %s", i.Op)
	return Val{}
}

// arith applies the integer mode to the mathematical result r of an operation of type t.
func (u *Unit) arith(st *State, r Term, t types.Type, reach Term, what string) Term {
	lo, hi, ok := intRange(t)
	if !ok {
		return u.def(r)
	}
	r = u.def(r)
	in := and(app("Bool", "<=", bigLit(lo), r), app("Bool", "<=", r, bigLit(hi)))
	switch u.overflow {
	case "checked":
		u.oblige("safety", reach, in, "safety.overflow", "", what+" stays within "+t.String())
	case "assumed":
		u.note("machine arithmetic treated as mathematical (overflow assumed absent)")
		u.assume(reach, in)
	case "wrap":
		return u.wrap(r, t)
	}
	return r
}

func (u *Unit) wrap(r Term, t types.Type) Term {
	lo, hi, ok := intRange(t)
	if !ok {
		return r
	}
	var mod string
	switch hi {
	case "127", "255":
		mod = "256"
	case "32767", "65535":
		mod = "65536"
	case "2147483647", "4294967295":
		mod = "4294967296"
	default:
		mod = "18446744073709551616"
	}
	if lo == "0" {
		return u.def(app("Int", "mod", r, bigLit(mod)))
	}
	// signed: ((r - lo) mod M) + lo
	return u.def(app("Int", "+", app("Int", "mod", app("Int", "-", r, bigLit(lo)), bigLit(mod)), bigLit(lo)))
}

func constInt(v Val) (int64, bool) {
	s := v.T.S
	neg := false
	if strings.HasPrefix(s, "(- ") {
		neg = true
		s = strings.TrimSuffix(s[3:], ")")
	}
	if s == "" {
		return 0, false
	}
	var n int64
	for _, r := range s {
		if r < '0' || r > '9' {
			return 0, false
		}
		if n > (1<<62)/10 {
			return 0, false
		}
		n = n*10 + int64(r-'0')
	}
	if neg {
		n = -n
	}
	return n, true
}

func pow2(k int64) Term {
	c := constant.Shift(constant.MakeInt64(1), token.SHL, uint(k))
	return bigLit(c.ExactString())
}

func (u *Unit) binop(st *State, op token.Token, x, y Val, xt, rt types.Type, reach Term) Val {
	res := func(t Term) Val { return Val{T: u.def(t), Typ: rt} }
	// pointer / address comparisons
	if x.Loc != nil || y.Loc != nil {
		if op == token.EQL || op == token.NEQ {
			var e Term
			switch {
			case x.Loc != nil && y.Loc != nil:
				if sameLoc(x.Loc, y.Loc) {
					e = tTrue
				} else {
					e = u.fresh("addreq", "Bool")
				}
			case x.Loc != nil:
				e = u.locEqTerm(x, y.T)
			default:
				e = u.locEqTerm(y, x.T)
			}
			if op == token.NEQ {
				e = not(e)
			}
			return res(e)
		}
	}
	xs := x.T.Sort
	switch op {
	case token.EQL, token.NEQ:
		var e Term
		if xs == "Opaque" {
			e = u.fresh("opqeq", "Bool")
		} else if xs == "Slice" {
			// only comparison with nil is legal
			other := y.T
			me := x.T
			if x.T.S == "nilslice" {
				me, other = y.T, x.T
			}
			_ = other
			e = eq(sArr(me), intLit(0))
		} else {
			e = eq(x.T, y.T)
		}
		if op == token.NEQ {
			e = not(e)
		}
		return res(e)
	}
	if xs == "Bytes" {
		switch op {
		case token.ADD:
			return res(app("Bytes", "bcat", x.T, y.T))
		case token.LSS:
			return res(app("Bool", "blexlt", x.T, y.T))
		case token.GTR:
			return res(app("Bool", "blexlt", y.T, x.T))
		case token.LEQ:
			return res(app("Bool", "blexle", x.T, y.T))
		case token.GEQ:
			return res(app("Bool", "blexle", y.T, x.T))
		}
	}
	if xs == "Bool" {
		switch op {
		case token.LAND, token.AND:
			return res(and(x.T, y.T))
		case token.LOR, token.OR:
			return res(or(x.T, y.T))
		}
	}
	if xs != "Int" {
		return u.freshVal(st, "binop", rt)
	}
	switch op {
	case token.LSS:
		return res(app("Bool", "<", x.T, y.T))
	case token.LEQ:
		return res(app("Bool", "<=", x.T, y.T))
	case token.GTR:
		return res(app("Bool", ">", x.T, y.T))
	case token.GEQ:
		return res(app("Bool", ">=", x.T, y.T))
	case token.ADD:
		return Val{T: u.arith(st, app("Int", "+", x.T, y.T), rt, reach, "addition"), Typ: rt}
	case token.SUB:
		return Val{T: u.arith(st, app("Int", "-", x.T, y.T), rt, reach, "subtraction"), Typ: rt}
	case token.MUL:
		return Val{T: u.arith(st, app("Int", "*", x.T, y.T), rt, reach, "multiplication"), Typ: rt}
	case token.QUO:
		u.oblige("safety", reach, not(eq(y.T, intLit(0))), "safety.div", "", "division by zero")
		if k, ok := constInt(y); ok && k > 0 {
			lo, _, _ := intRange(rt)
			if lo == "0" {
				return res(app("Int", "div", x.T, y.T))
			}
		}
		return res(app("Int", "tdiv", x.T, y.T))
	case token.REM:
		u.oblige("safety", reach, not(eq(y.T, intLit(0))), "safety.div", "", "division by zero")
		if k, ok := constInt(y); ok && k > 0 {
			lo, _, _ := intRange(rt)
			if lo == "0" {
				return res(app("Int", "mod", x.T, y.T))
			}
		}
		return res(app("Int", "tmod", x.T, y.T))
	case token.SHL, token.SHR:
		// a negative (signed) shift count panics at run time
		if _, isConst := constInt(y); !isConst && y.Typ != nil {
			if lo, _, ok := intRange(y.Typ); ok && lo != "0" {
				u.oblige("safety", reach, app("Bool", ">=", y.T, intLit(0)), "safety.shift", "", "shift count is not negative")
			}
		}
		if op == token.SHR {
			if k, ok := constInt(y); ok && k >= 0 && k < 64 {
				return res(app("Int", "div", x.T, pow2(k)))
			}
			return u.bitop(st, "bitshr", x, y, rt)
		}
		if k, ok := constInt(y); ok && k >= 0 && k < 64 {
			r := app("Int", "*", x.T, pow2(k))
			// shifts discard high bits silently: wrap
			return Val{T: u.wrap(u.def(r), rt), Typ: rt}
		}
		return u.bitop(st, "bitshl", x, y, rt)
	case token.AND:
		if k, ok := constInt(y); ok && k >= 0 && (k+1)&k == 0 {
			return res(app("Int", "mod", x.T, bigLit(fmt.Sprint(k+1))))
		}
		if k, ok := constInt(x); ok && k >= 0 && (k+1)&k == 0 {
			return res(app("Int", "mod", y.T, bigLit(fmt.Sprint(k+1))))
		}
		// a single-bit mask 2^b: ((v mod 2^(b+1)) div 2^b) * 2^b  (SMT mod is non-negative, so this is the
		// two's complement bit also for negative v)
		for _, pr := range [][2]Val{{x, y}, {y, x}} {
			if k, ok := constInt(pr[1]); ok && k > 0 && k&(k-1) == 0 && k < (1<<62) {
				bit := app("Int", "div", app("Int", "mod", pr[0].T, bigLit(fmt.Sprint(2*k))), bigLit(fmt.Sprint(k)))
				return res(app("Int", "*", bit, bigLit(fmt.Sprint(k))))
			}
		}
		return u.bitop(st, "bitand", x, y, rt)
	case token.OR:
		return u.bitop(st, "bitor", x, y, rt)
	case token.XOR:
		return u.bitop(st, "bitxor", x, y, rt)
	case token.AND_NOT:
		return u.bitop(st, "bitandnot", x, y, rt)
	}
	u.unsupportedf("binop %s", op)
	return Val{}
}

func (u *Unit) bitop(st *State, f string, x, y Val, rt types.Type) Val {
	u.note("non-constant bit operations are uninterpreted (only sign/size facts known)")
	t := u.def(app("Int", f, x.T, y.T))
	u.assume(tTrue, inRange(t, rt))
	return Val{T: t, Typ: rt}
}

func (u *Unit) locEqTerm(l Val, t Term) Term {
	// an address of a local or of a field is never nil
	if t.S == "0" {
		return tFalse
	}
	lt, ok := u.locToTerm(l)
	if ok {
		return eq(lt, t)
	}
	return u.fresh("addreq", "Bool")
}

func (u *Unit) execIndexAddr(fr *Frame, i *ssa.IndexAddr, st *State, reach Term) Val {
	x, idx := u.value(fr, i.X), u.value(fr, i.Index)
	et := i.Type().(*types.Pointer).Elem()
	switch t := i.X.Type().Underlying().(type) {
	case *types.Slice:
		ln := sLen(x.T)
		u.instantiateAt(idx.T)
		u.noteIndexTerm(idx.T)
		u.oblige("safety", reach, and(app("Bool", "<=", intLit(0), idx.T), app("Bool", "<", idx.T, ln)), "safety.index", "", "slice index in range")
		return Val{Loc: &Loc{Kind: LElem, Base: u.def(sArr(x.T)), Index: u.def(app("Int", "+", sOff(x.T), idx.T)), Elem: et}, Typ: i.Type()}
	case *types.Pointer:
		at := t.Elem().Underlying().(*types.Array)
		u.oblige("safety", reach, and(app("Bool", "<=", intLit(0), idx.T), app("Bool", "<", idx.T, intLit(at.Len()))), "safety.index", "", "array index in range")
		pl := u.derefLoc(fr, st, x, i.X.Type(), reach, "array element")
		return Val{Loc: &Loc{Kind: LSub, Parent: pl, IsIdx: true, Index: idx.T, Elem: et}, Typ: i.Type()}
	}
	u.unsupportedf("IndexAddr on %s", i.X.Type())
	return Val{}
}

func (u *Unit) execLookup(fr *Frame, i *ssa.Lookup, st *State, reach Term) Val {
	x, k := u.value(fr, i.X), u.value(fr, i.Index)
	if mt, ok := i.X.Type().Underlying().(*types.Map); ok {
		_, dh, _, vh := u.mapHeaps(st, mt)
		kt := u.termOf(k)
		in := u.def(and(not(eq(x.T, intLit(0))), sel(sel(dh, x.T), kt)))
		val := u.def(ite(in, sel(sel(vh, x.T), kt), u.zeroOf(mt.Elem())))
		u.assume(tTrue, u.typeInv(st, val, mt.Elem()))
		v := Val{T: val, Typ: mt.Elem()}
		if i.CommaOk {
			return Val{Tup: []Val{v, {T: in, Typ: types.Typ[types.Bool]}}, Typ: i.Type()}
		}
		return v
	}
	// string index
	u.oblige("safety", reach, and(app("Bool", "<=", intLit(0), k.T), app("Bool", "<", k.T, app("Int", "blen", x.T))), "safety.index", "", "string index in range")
	return Val{T: u.def(app("Int", "bat", x.T, k.T)), Typ: i.Type()}
}

func (u *Unit) makeSlice(st *State, elem types.Type, ln, cp Term) Term {
	r := u.newRef(st)
	name, h := u.memHeap(st, elem)
	es := u.sortOf(elem)
	zero := u.zeroOf(elem)
	st.heaps[name] = u.def(sto(h, r, constArray(arraySort("Int", es), zero)))
	return u.def(mkSlice(r, intLit(0), ln, cp))
}

func (u *Unit) execSlice(fr *Frame, i *ssa.Slice, st *State, reach Term) Val {
	x := u.value(fr, i.X)
	var lo, hi, mx Term
	if i.Low != nil {
		lo = u.value(fr, i.Low).T
	} else {
		lo = intLit(0)
	}
	switch t := i.X.Type().Underlying().(type) {
	case *types.Basic: // string
		ln := app("Int", "blen", x.T)
		if i.High != nil {
			hi = u.value(fr, i.High).T
		} else {
			hi = ln
		}
		u.oblige("safety", reach, and(app("Bool", "<=", intLit(0), lo), app("Bool", "<=", lo, hi), app("Bool", "<=", hi, ln)), "safety.slice", "", "string slice bounds")
		return Val{T: u.def(app("Bytes", "bsub", x.T, lo, hi)), Typ: i.Type()}
	case *types.Slice:
		ln, cp := sLen(x.T), sCap(x.T)
		if i.High != nil {
			hi = u.value(fr, i.High).T
		} else {
			hi = ln
		}
		if i.Max != nil {
			mx = u.value(fr, i.Max).T
		} else {
			mx = cp
		}
		u.oblige("safety", reach, and(app("Bool", "<=", intLit(0), lo), app("Bool", "<=", lo, hi), app("Bool", "<=", hi, mx), app("Bool", "<=", mx, cp)), "safety.slice", "", "slice bounds")
		return Val{T: u.def(mkSlice(sArr(x.T), app("Int", "+", sOff(x.T), lo), app("Int", "-", hi, lo), app("Int", "-", mx, lo))), Typ: i.Type()}
	case *types.Pointer: // *array
		at := t.Elem().Underlying().(*types.Array)
		n := intLit(at.Len())
		if i.High != nil {
			hi = u.value(fr, i.High).T
		} else {
			hi = n
		}
		u.oblige("safety", reach, and(app("Bool", "<=", intLit(0), lo), app("Bool", "<=", lo, hi), app("Bool", "<=", hi, n)), "safety.slice", "", "array slice bounds")
		pl := u.derefLoc(fr, st, x, i.X.Type(), reach, "array slice")
		av := u.load(st, pl)
		u.note("slicing an array copies it into a fresh backing array (later writes through one are not seen through the other)")
		r := u.newRef(st)
		name, h := u.memHeap(st, at.Elem())
		if av.T.Sort == "Opaque" {
			st.heaps[name] = u.def(sto(h, r, u.fresh("arr", arraySort("Int", u.sortOf(at.Elem())))))
		} else {
			st.heaps[name] = u.def(sto(h, r, av.T))
		}
		return Val{T: u.def(mkSlice(r, lo, app("Int", "-", hi, lo), app("Int", "-", n, lo))), Typ: i.Type()}
	}
	u.unsupportedf("Slice on %s", i.X.Type())
	return Val{}
}

// boxIface wraps a concrete value into an interface value.
func (u *Unit) boxIface(t Term, typ types.Type) Term {
	if t.Sort == "Iface" {
		return t
	}
	key := u.typeKey(typ) + "#" + t.Sort
	f := "box_" + mangle(key)
	tag, ok := u.boxFns[key]
	if !ok {
		tag = len(u.boxFns) + 1
		u.boxFns[key] = tag
		u.decls = append(u.decls,
			fmt.Sprintf("(declare-fun %s (%s) Iface)", f, t.Sort),
			fmt.Sprintf("(declare-fun un%s (Iface) %s)", f, t.Sort),
			fmt.Sprintf("(assert (forall ((x %s)) (! (and (= (itag (%s x)) %d) (= (un%s (%s x)) x)) :pattern ((%s x)))))", t.Sort, f, tag, f, f, f))
		if _, isPtr := typ.Underlying().(*types.Pointer); isPtr && t.Sort == "Int" {
			u.decls = append(u.decls, fmt.Sprintf("(assert (forall ((x Int)) (! (= (irefof (%s x)) x) :pattern ((%s x)))))", f, f))
		}
	}
	return app("Iface", f, t)
}

func (u *Unit) ifaceTag(typ types.Type, sort string) (string, int) {
	key := u.typeKey(typ) + "#" + sort
	f := "box_" + mangle(key)
	if _, ok := u.boxFns[key]; !ok {
		u.boxIface(Term{"x", sort}, typ) // declares
	}
	return f, u.boxFns[key]
}

func (u *Unit) execTypeAssert(fr *Frame, i *ssa.TypeAssert, st *State, reach Term) Val {
	x := u.value(fr, i.X)
	if _, isIface := i.AssertedType.Underlying().(*types.Interface); isIface {
		ok := u.fresh("implements", "Bool")
		u.assume(tTrue, implies(eq(x.T, Term{"inil", "Iface"}), not(ok)))
		if i.CommaOk {
			return Val{Tup: []Val{{T: u.def(ite(ok, x.T, Term{"inil", "Iface"})), Typ: i.AssertedType}, {T: ok, Typ: types.Typ[types.Bool]}}, Typ: i.Type()}
		}
		u.oblige("safety", reach, ok, "safety.typeassert", "", "interface conversion to "+i.AssertedType.String())
		return Val{T: x.T, Typ: i.AssertedType}
	}
	sort := u.sortOf(i.AssertedType)
	f, tag := u.ifaceTag(i.AssertedType, sort)
	ok := u.def(eq(app("Int", "itag", x.T), intLit(int64(tag))))
	val := u.def(app(sort, "un"+f, x.T))
	u.assume(tTrue, u.typeInv(st, val, i.AssertedType))
	if i.CommaOk {
		return Val{Tup: []Val{{T: u.def(ite(ok, val, u.zeroOf(i.AssertedType))), Typ: i.AssertedType}, {T: ok, Typ: types.Typ[types.Bool]}}, Typ: i.Type()}
	}
	u.oblige("safety", reach, ok, "safety.typeassert", "", "type assertion to "+i.AssertedType.String())
	return Val{T: val, Typ: i.AssertedType}
}

func (u *Unit) execNext(fr *Frame, i *ssa.Next, st *State, reach Term) Val {
	ok := u.fresh("rangeok", "Bool")
	tup := i.Type().(*types.Tuple)
	rng, _ := i.Iter.(*ssa.Range)
	if i.IsString || rng == nil {
		k := u.freshVal(st, "rangekey", tup.At(1).Type())
		v := u.freshVal(st, "rangeval", tup.At(2).Type())
		return Val{Tup: []Val{{T: ok, Typ: types.Typ[types.Bool]}, k, v}, Typ: i.Type()}
	}
	mt := rng.X.Type().Underlying().(*types.Map)
	m := u.value(fr, rng)
	_, _, _, vh := u.mapHeaps(st, mt)
	ok, k := u.nextMapKey(st, rng, m.T, mt)
	v := Val{T: u.def(sel(sel(vh, m.T), k.T)), Typ: mt.Elem()}
	u.assume(tTrue, u.typeInv(st, v.T, mt.Elem()))
	u.note("range over a map visits keys in an arbitrary order (each step yields some key of the map)")
	return Val{Tup: []Val{{T: ok, Typ: types.Typ[types.Bool]}, k, v}, Typ: i.Type()}
}

func (u *Unit) execPanic(fr *Frame, i *ssa.Panic, st *State, reach Term) {
	allowed := tFalse
	if fr.top && fr.ct != nil {
		if src, ok := fr.ct.Opts["panics"]; ok && src == "allowed" {
			allowed = tTrue
		}
	}
	u.oblige("safety", reach, allowed, "safety.panic", "", "explicit panic is unreachable")
}

// convert implements Go conversions between basic types, strings and byte slices.
func (u *Unit) convert(st *State, x Val, from, to types.Type, reach Term) Val {
	fs, ts := u.sortOf(from), u.sortOf(to)
	fu, tu := from.Underlying(), to.Underlying()
	switch {
	case fs == "Int" && ts == "Int":
		flo, fhi, fok := intRange(from)
		tlo, thi, tok := intRange(to)
		if !fok || !tok {
			return Val{T: x.T, Typ: to}
		}
		if bigLE(tlo, flo) && bigLE(fhi, thi) {
			return Val{T: x.T, Typ: to} // widening
		}
		return Val{T: u.wrap(x.T, to), Typ: to}
	case fs == "Bytes" && ts == "Slice":
		// []byte(s): fresh array holding the bytes of s
		elem := tu.(*types.Slice).Elem()
		if u.sortOf(elem) != "Int" || u.typeKey(elem) != "uint8" {
			return u.freshVal(st, "conv", to)
		}
		r := u.newRef(st)
		name, h := u.memHeap(st, elem)
		st.heaps[name] = u.def(sto(h, r, app("(Array Int Int)", "barr", x.T)))
		ln := app("Int", "blen", x.T)
		return Val{T: u.def(mkSlice(r, intLit(0), ln, ln)), Typ: to}
	case fs == "Slice" && ts == "Bytes":
		elem := fu.(*types.Slice).Elem()
		if u.typeKey(elem) != "uint8" {
			return u.freshVal(st, "conv", to)
		}
		u.boundNow = nil
		return Val{T: u.bytesOf(st, x.T), Typ: to}
	case fs == "Int" && ts == "Bytes":
		u.note("string(rune) yields an unknown string")
		return u.freshVal(st, "runestr", to)
	case fs == ts && fs != "Opaque":
		return Val{T: x.T, Typ: to}
	}
	return u.freshVal(st, "conv", to)
}

func bigLE(a, b string) bool {
	x, _ := constant.Val(constant.MakeFromLiteral(strings.TrimPrefix(a, "-"), token.INT, 0)).(interface{})
	_ = x
	ca := constant.MakeFromLiteral(strings.TrimPrefix(a, "-"), token.INT, 0)
	if strings.HasPrefix(a, "-") {
		ca = constant.UnaryOp(token.SUB, ca, 0)
	}
	cb := constant.MakeFromLiteral(strings.TrimPrefix(b, "-"), token.INT, 0)
	if strings.HasPrefix(b, "-") {
		cb = constant.UnaryOp(token.SUB, cb, 0)
	}
	return constant.Compare(ca, token.LEQ, cb)
}
