package main

import (
	"strings"
	"sync/atomic"
)

var failedSoFar atomic.Int64

// stripQuantified drops every assertion that contains a quantifier. What remains is weaker than
// the original set of assumptions, so a model of it is only a *candidate* counterexample: it has
// to be confirmed by replaying it against the real code.
func stripQuantified(query string) string {
	var out []string
	goal := false
	for _, l := range strings.Split(query, "\n") {
		t := strings.TrimSpace(l)
		if strings.HasPrefix(t, "; obligation ") {
			goal = true
		}
		if !goal && strings.HasPrefix(t, "(assert") && (strings.Contains(t, "(forall ") || strings.Contains(t, "(exists ")) {
			continue
		}
		out = append(out, l)
	}
	return strings.Join(out, "\n")
}

// candidateModel asks for a model of the negated obligation under the quantifier-free part of
// the assumptions.
func candidateModel(workDir, name, query string, hints []string) (SolverResult, bool) {
	q := stripQuantified(query)
	if len(hints) > 0 {
		// small inputs first (models only: an unsat answer under the hints proves nothing)
		hq := strings.Replace(q, "; obligation ", strings.Join(hints, "\n")+"\n; obligation ", 1)
		if r := runQuery(workDir, name+".candidate-small", hq, 5, false); r.Status == "sat" {
			return r, true
		}
	}
	r := runQuery(workDir, name+".candidate", q, 5, false)
	return r, r.Status == "sat"
}

// stripNested drops only the assertions with quantifier alternation or nesting (the ones that
// derail instantiation-based solvers). Fewer assumptions: an unsat answer is still a proof.
func stripNested(query string) string {
	var out []string
	goal := false
	for _, l := range strings.Split(query, "\n") {
		t := strings.TrimSpace(l)
		if strings.HasPrefix(t, "; obligation ") {
			goal = true
		}
		if !goal && strings.HasPrefix(t, "(assert") {
			n := strings.Count(t, "(forall ") + strings.Count(t, "(exists ")
			if n >= 2 {
				continue
			}
		}
		out = append(out, l)
	}
	return strings.Join(out, "\n")
}

// addViolation: an obligation that failed in a unit whose loop clauses no longer apply to the code
// (renamed or removed locals) counts as a violation only when a failing input was reproduced on
// the real code; otherwise the check could not decide (harmless refactorings must not alarm).
func addViolation(violations, infra []string, line string, o *Obligation, u *Unit) ([]string, []string) {
	if o.Status == "error" {
		infra = append(infra, o.Name+": every back end rejected the generated query (defect of the generator, not a verdict): "+firstLines(o.Result.Output, 2))
		return violations, infra
	}
	if u != nil && len(u.dropped) > 0 && !o.Reproduced {
		infra = append(infra, o.Name+": not decided - loop clauses of the contract no longer apply ("+u.dropped[0]+") and no failing input was found")
		return violations, infra
	}
	return append(violations, line), infra
}
