#!/bin/sh
# runs every claimed check (quick tier) and prints one summary line per property; exit 1 if any is not clean
cd /verif
bad=0
for id in $(python3 -c "import json;print(' '.join(sorted(k for k,v in json.load(open('claims.json')).items() if v.get('claimed'))))"); do
  out=$(./check $id 2>&1); rc=$?
  echo "$out" | grep "^gocv:" | tail -1
  if [ $rc -ne 0 ]; then bad=1; echo "$out" | grep "VIOLATION\|UNDECIDED\|ERROR" | cut -c1-240; fi
done
exit $bad
