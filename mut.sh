#!/bin/sh
# usage: mut.sh <prop> <repo-relative file> <sed expr> [extra gocv args]  -- runs gocv on an overlay mutant
prop=$1; file=$2; expr=$3; shift 3
d=$(mktemp -d /tmp/mutXXXX)
sed "$expr" /repo/$file > $d/m.go
if cmp -s /repo/$file $d/m.go; then echo "MUTANT DID NOT CHANGE THE FILE"; rm -rf $d; exit 3; fi
echo "{\"/repo/$file\":\"$d/m.go\"}" > $d/ov.json
/verif/bin/gocv -prop $prop -overlay $d/ov.json -no-evidence "$@" 2>&1 | grep -v "^  " | tail -6
rm -rf $d
