#!/usr/bin/env python3
"""Regenerates MANIFEST.json from claims.json (the per-property claims) and properties.jsonl."""
import json
props=[json.loads(l) for l in open('/verif/properties.jsonl')]
claims=json.load(open('/verif/claims.json'))
hooks=json.load(open('/verif/hooks.json'))
checks=[]
for p in props:
    c=claims.get(p['id'])
    if not c or not c.get('claimed'): continue
    checks.append({
      "property_id":p['id'],
      "quick_cmd":"./check %s --tier quick"%p['id'],
      "thorough_cmd":"./check %s --tier thorough"%p['id'],
      "evidence_file":"/verif/evidence/%s.json"%p['id'],
      "replay_cmd_template":"./check %s --replay {path}"%p['id'],
      "engine":"gocv",
      "level_claimed":{"category":c.get("category","proof"),"text":c["text"],"design_ref":c.get("design_ref","DESIGN.md §4 "+p['id'])},
      "level_note":c["note"],
      "technique":c.get("technique","contract-based deductive verification: VCs generated over go/ssa of the real functions, discharged by z3/cvc5")})
import os
nar=json.load(open('/verif/na_reasons.json')) if os.path.exists('/verif/na_reasons.json') else {}
na=[]
for p in props:
    c=claims.get(p['id'])
    if c and c.get('claimed'): continue
    na.append({"property_id":p['id'],"reason":((c or {}).get("reason") or nar.get(p['id']) or "no contract set within reach of this technique was completed for it (DESIGN.md §5)")})
m={"version":1,"setup_cmd":"./setup.sh",
 "hooks":{"guard":"verif","enable":"contract files <pkg>/contracts_verif.go carry the build tag verif and contain only comments; gocv loads /repo with -tags verif and reads them","baseline_off_cmd":"cd /repo && go test -vet=off -count=1 -timeout 25m ./...","source_commits":hooks["source_commits"],"add_only":True},
 "engines":[{"name":"gocv","path":"/verif/gocv","serves_properties":[c["property_id"] for c in checks],"kind_free_text":"VC generator (weakest-precondition style symbolic execution over go/ssa NaiveForm of /repo's working tree); contracts in //@ comments of <pkg>/contracts_verif.go; obligations raced on z3 4.8.12, z3 5.1.0, cvc5 1.0.3"}],
 "checks":checks,
 "notes":"see DESIGN.md; known findings in known_findings.json",
 "not_applicable":na}
json.dump(m,open('/verif/MANIFEST.json','w'),indent=1)
print(len(checks),"checks,",len(na),"not applicable")
