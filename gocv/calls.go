package main

import (
	"fmt"
	"go/types"
	"strings"

	"golang.org/x/tools/go/ssa"
)

type effect int

const (
	effNone effect = iota
	effFrame
	effAll
)

// methods that never touch modelled state (sequential view): locks, wait groups, logging
var noopMethods = map[string]bool{
	"(*sync.Mutex).Lock": true, "(*sync.Mutex).Unlock": true, "(*sync.RWMutex).Lock": true, "(*sync.RWMutex).Unlock": true,
	"(*sync.RWMutex).RLock": true, "(*sync.RWMutex).RUnlock": true, "(*sync.WaitGroup).Add": true, "(*sync.WaitGroup).Done": true,
	"(*sync.WaitGroup).Wait": true, "(*sync.Once).Do": false, "(*sync.Mutex).TryLock": false,
	"time.Sleep": true, "runtime.Gosched": true, "(*time.Ticker).Stop": true, "(*time.Timer).Stop": true,
}

var writingBuiltin = map[string]bool{"append": true, "copy": true, "delete": true, "clear": true, "panic": true, "close": true}

var logMethodNames =map[string]bool{"Debug": true, "Info": true, "Warn": true, "Error": true, "Crit": true, "Trace": true}

func (u *Unit) calleeName(c *ssa.CallCommon) string {
	if c.IsInvoke() {
		// name interface methods after the interface that declares them (KVDB embeds KV: a call
		// of Get through a KVDB value is a call of KV.Get)
		if sig, ok := c.Method.Type().(*types.Signature); ok && sig.Recv() != nil {
			if n, ok := types.Unalias(sig.Recv().Type()).(*types.Named); ok {
				return methodName(n, c.Method)
			}
		}
		return methodName(c.Value.Type(), c.Method)
	}
	if fn := c.StaticCallee(); fn != nil {
		return funcName(fn)
	}
	if b, ok := c.Value.(*ssa.Builtin); ok {
		return "builtin." + b.Name()
	}
	return "<dynamic>"
}

func isLogCall(c *ssa.CallCommon) bool {
	if c.IsInvoke() {
		if logMethodNames[c.Method.Name()] {
			s := c.Value.Type().String()
			return strings.Contains(s, "log15.Logger") || strings.Contains(s, "log.Logger")
		}
		return false
	}
	if fn := c.StaticCallee(); fn != nil && fn.Pkg != nil {
		p := fn.Pkg.Pkg.Path()
		if strings.HasSuffix(p, "/log15") || strings.HasSuffix(p, "common/log") || p == "log" {
			return true
		}
	}
	return false
}

func isNoopCall(u *Unit, c *ssa.CallCommon) bool {
	if isLogCall(c) {
		return true
	}
	return noopMethods[u.calleeName(c)]
}

// callEffect classifies what a call may write (used for loop havoc).
func (u *Unit) callEffect(fr *Frame, c *ssa.CallCommon) effect {
	if isNoopCall(u, c) {
		return effNone
	}
	if b, ok := c.Value.(*ssa.Builtin); ok {
		switch b.Name() {
		case "append", "copy", "delete", "clear":
			return effFrame
		}
		return effNone
	}
	name := u.calleeName(c)
	if _, ok := pureModels[name]; ok {
		return effNone
	}
	if ct := u.W.Contracts[name]; ct == nil && isPureExternal(name) {
		return effNone
	}
	if ct := u.W.Contracts[name]; ct == nil && u.isProtoGetter(c) {
		return effNone
	}
	if ct := u.W.Contracts[name]; ct != nil && ct.HasFrame {
		if len(ct.Frame) == 1 && ct.Frame[0] == "nothing" {
			return effNone
		}
		for _, f := range ct.Frame {
			if strings.Contains(f, "[") || strings.HasPrefix(f, "~") || (strings.HasPrefix(f, "*") && !strings.HasPrefix(f, "*.")) || (strings.HasPrefix(f, "@")) {
				return effAll
			}
		}
		return effFrame // ("allocates" is reported by callFrameHeaps as the pseudo heap "@allocates")
	}
	if fn := c.StaticCallee(); fn != nil && u.canInline(fn) {
		// conservative: an inlined body may write anything it can reach
		if fnIsReadOnly(fn) {
			return effNone
		}
	}
	return effAll
}

func fnIsReadOnly(fn *ssa.Function) bool {
	for _, b := range fn.Blocks {
		for _, in := range b.Instrs {
			switch i := in.(type) {
			case *ssa.Store:
				if a, ok := i.Addr.(*ssa.Alloc); !ok || !allocIsCell(a) {
					return false
				}
			case *ssa.MapUpdate, *ssa.Go, *ssa.Send, *ssa.Select, *ssa.Defer:
				return false
			case ssa.CallInstruction:
				c := i.Common()
				if b, ok := c.Value.(*ssa.Builtin); ok && !writingBuiltin[b.Name()] {
					continue
				}
				if f := c.StaticCallee(); f != nil && f != fn && len(f.Blocks) > 0 && len(f.Blocks) <= 8 && fnIsReadOnlyShallow(f) {
					continue
				}
				if _, ok := pureModels[funcNameOfCall(c)]; ok {
					continue
				}
				return false
			}
		}
	}
	return true
}

func funcNameOfCall(c *ssa.CallCommon) string {
	if c.IsInvoke() {
		return methodName(c.Value.Type(), c.Method)
	}
	if f := c.StaticCallee(); f != nil {
		return funcName(f)
	}
	return ""
}

func fnIsReadOnlyShallow(fn *ssa.Function) bool {
	for _, b := range fn.Blocks {
		for _, in := range b.Instrs {
			switch i := in.(type) {
			case *ssa.Store:
				if a, ok := i.Addr.(*ssa.Alloc); !ok || !allocIsCell(a) {
					return false
				}
			case *ssa.MapUpdate, *ssa.Go, *ssa.Send, *ssa.Select, *ssa.Defer:
				return false
			case ssa.CallInstruction:
				if b, ok := i.Common().Value.(*ssa.Builtin); ok && !writingBuiltin[b.Name()] {
					continue
				}
				return false
			}
		}
	}
	return true
}

func (u *Unit) callFrameHeaps(fr *Frame, c *ssa.CallCommon) []string {
	if b, ok := c.Value.(*ssa.Builtin); ok {
		switch b.Name() {
		case "append", "copy":
			if sl, ok := c.Args[0].Type().Underlying().(*types.Slice); ok {
				return []string{"M:" + u.typeKey(sl.Elem())}
			}
		case "delete", "clear":
			if m, ok := c.Args[0].Type().Underlying().(*types.Map); ok {
				k := u.typeKey(m.Key()) + "|" + u.typeKey(m.Elem())
				return []string{"MD:" + k, "MV:" + k}
			}
		}
		return nil
	}
	name := u.calleeName(c)
	if ct := u.W.Contracts[name]; ct != nil {
		var hs []string
		for _, f := range ct.Frame {
			if f == "allocates" {
				hs = append(hs, "@allocates")
				continue
			}
			hs = append(hs, u.resolveFrameItem(ct, f)...)
		}
		return hs
	}
	return nil
}

// resolveFrameItem maps a frame item to heap names: "T.f" (field or ghost field of a type of the
// contract's package, or pkg/path.T.f), "mem:uint8", "map:K|V", "global:pkg.Name", "called:name".
func (u *Unit) resolveFrameItem(ct *Contract, item string) []string {
	item = strings.TrimSpace(item)
	switch {
	case item == "nothing" || item == "allocates" || item == "":
		return nil
	case strings.HasPrefix(item, "mem:"):
		return []string{"M:" + item[4:]}
	case strings.HasPrefix(item, "box:"):
		return []string{"B:" + item[4:]}
	case strings.HasPrefix(item, "map:"):
		if at := strings.Index(item, "@"); at > 0 {
			item = strings.TrimSpace(item[:at]) // map:K|V@expr - only the map expr denotes changes
		}
		return []string{"MD:" + item[4:], "MV:" + item[4:]}
	case strings.HasPrefix(item, "global:"):
		return []string{"G:" + item[7:]}
	}
	i := strings.LastIndex(item, ".")
	if i < 0 {
		return nil
	}
	tn, f := item[:i], item[i+1:]
	if _, ok := u.W.Ghosts["*."+f]; ok {
		return []string{"GH:*." + f}
	}
	if !strings.Contains(tn, "/") && !strings.Contains(tn, ".") && ct.Pkg != "" {
		tn = ct.Pkg + "." + tn
	}
	if _, ok := u.W.Ghosts[tn+"."+f]; ok {
		return []string{"GH:" + tn + "." + f}
	}
	return []string{"F:" + tn + "." + f}
}

func (u *Unit) canInline(fn *ssa.Function) bool {
	if fn == nil || len(fn.Blocks) == 0 || u.depth >= 3 {
		return false
	}
	if ct := u.W.Contracts[funcName(fn)]; ct != nil {
		_, inl := ct.Opts["inline"]
		return inl
	}
	if len(fn.Blocks) > 10 {
		return false
	}
	n := 0
	for _, b := range fn.Blocks {
		for _, s := range b.Succs {
			if isBackEdge(b, s) {
				return false
			}
		}
		for _, in := range b.Instrs {
			n++
			switch in.(type) {
			case *ssa.Go, *ssa.Select, *ssa.Defer, *ssa.Send, *ssa.MakeClosure, *ssa.Panic:
				return false
			}
		}
	}
	return n <= 80
}

// execCall executes a call instruction.
func (u *Unit) execCall(fr *Frame, site ssa.Instruction, c *ssa.CallCommon, st *State, reach *Term) Val {
	var resT types.Type
	if v, ok := site.(ssa.Value); ok {
		resT = v.Type()
	} else {
		resT = c.Signature().Results()
	}
	// builtins
	if b, ok := c.Value.(*ssa.Builtin); ok {
		if b.Name() == "append" || b.Name() == "copy" || b.Name() == "delete" {
			var bargs []Val
			for _, a := range c.Args {
				bargs = append(bargs, u.value(fr, a))
			}
			u.callAsserts(fr, "builtin."+b.Name(), bargs, c, st, *reach)
		}
		return u.execBuiltin(fr, b, c, st, *reach, resT)
	}
	name := u.calleeName(c)
	if isNoopCall(u, c) {
		if resT != nil {
			if tup, ok := resT.(*types.Tuple); ok && tup.Len() == 0 {
				return Val{Typ: resT}
			}
			return u.freshVal(st, "r", resT)
		}
		return Val{}
	}
	var args []Val
	if c.IsInvoke() {
		args = append(args, u.value(fr, c.Value))
	}
	for _, a := range c.Args {
		args = append(args, u.value(fr, a))
	}
	u.callAsserts(fr, name, args, c, st, *reach)
	if m, ok := pureModels[name]; ok {
		if v, done := m(u, st, args, resT, *reach); done {
			return v
		}
	}
	if ct := u.W.Contracts[name]; ct != nil {
		if _, inl := ct.Opts["inline"]; !inl {
			return u.applyContract(fr, ct, name, c, args, st, *reach, resT)
		}
	}
	fn := c.StaticCallee()
	if fn == nil && !c.IsInvoke() {
		// call of a function value: a closure created in this frame can be inlined
		fv := u.value(fr, c.Value)
		if fv.Fn != nil && u.depth < 3 && len(fv.Fn.Blocks) > 0 && u.closureInlinable(fv.Fn) {
			return u.inlineCall(fr, fv.Fn, args, fv.Bindings, st, reach, resT)
		}
	}
	if fn != nil && u.canInline(fn) {
		return u.inlineCall(fr, fn, args, nil, st, reach, resT)
	}
	if isPureExternal(name) {
		return u.freshResult(st, resT, name)
	}
	if v, ok := u.protoGetter(st, c, args, resT); ok {
		return v
	}
	// unknown callee: arbitrary effects on the heap, arbitrary results
	u.note("call to " + name + " without contract: arbitrary heap effects and results")
	for _, a := range args {
		u.havocReachableCell(fr, st, a)
	}
	u.havocAllCall(fr, st, name)
	st.ghostCalled["called:"+name] = tTrue
	return u.freshResult(st, resT, name)
}

func (u *Unit) closureInlinable(fn *ssa.Function) bool {
	for _, b := range fn.Blocks {
		for _, s := range b.Succs {
			if isBackEdge(b, s) {
				return false
			}
		}
		for _, in := range b.Instrs {
			switch in.(type) {
			case *ssa.Go, *ssa.Select, *ssa.Defer, *ssa.Send:
				return false
			}
		}
	}
	return len(fn.Blocks) <= 30
}

func (u *Unit) freshResult(st *State, resT types.Type, name string) Val {
	if resT == nil {
		return Val{}
	}
	if tup, ok := resT.(*types.Tuple); ok && tup.Len() == 0 {
		return Val{Typ: resT}
	}
	short := name
	if i := strings.LastIndex(short, "."); i >= 0 {
		short = short[i+1:]
	}
	return u.freshVal(st, "r_"+short, resT)
}

// havocReachableCell: when the address of a local cell is passed to an unknown callee the cell may change.
func (u *Unit) havocReachableCell(fr *Frame, st *State, a Val) {
	if a.Loc == nil {
		return
	}
	l := a.Loc
	for l.Kind == LSub {
		l = l.Parent
	}
	if l.Kind == LCell {
		st.cells[l.Cell] = u.freshVal(st, "esc_"+l.Cell.Name, l.Cell.Typ)
	}
}

func (u *Unit) inlineCall(fr *Frame, fn *ssa.Function, args []Val, bindings []Val, st *State, reach *Term, resT types.Type) Val {
	u.depth++
	defer func() { u.depth-- }()
	u.comment("inline " + funcName(fn))
	nf := u.newFrame(fn, fr)
	nf.ct = nil
	if ct := u.W.Contracts[funcName(fn)]; ct != nil {
		nf.ct = ct
	}
	for i, fv := range fn.FreeVars {
		if i < len(bindings) {
			nf.vals[fv] = bindings[i]
		}
	}
	saveWhere := u.curWhere
	u.runFunction(nf, args, st, *reach)
	u.curWhere = saveWhere
	// merge returns
	if len(nf.rets) == 0 {
		// callee never returns (panics on all paths)
		*reach = tFalse
		return u.freshResult(st, resT, fn.Name())
	}
	var ins []edgeIn
	for _, r := range nf.rets {
		ins = append(ins, edgeIn{cond: r.reach, st: r.st})
	}
	var merged *State
	if len(ins) == 1 {
		merged = ins[0].st
	} else {
		merged = u.mergeStates(ins)
	}
	*st = *merged
	var conds []Term
	for _, r := range nf.rets {
		conds = append(conds, r.reach)
	}
	*reach = u.def(or(conds...))
	nres := len(nf.rets[0].results)
	if nres == 0 {
		return Val{Typ: resT}
	}
	out := make([]Val, nres)
	for k := 0; k < nres; k++ {
		acc := nf.rets[len(nf.rets)-1].results[k]
		for j := len(nf.rets) - 2; j >= 0; j-- {
			acc = u.mergeVal(nf.rets[j].reach, nf.rets[j].results[k], acc)
		}
		out[k] = acc
	}
	if nres == 1 {
		return out[0]
	}
	return Val{Tup: out, Typ: resT}
}

func (u *Unit) runDeferred(d deferred, st *State, reach Term) {
	c := d.call
	if !c.IsInvoke() && isNoopCall(u, c) {
		return
	}
	cond := u.def(and(reach, d.cond))
	if cond.S == "false" {
		return
	}
	branch := st.clone()
	r := cond
	u.execCall(d.fr, d.pos, c, branch, &r)
	merged := u.mergeStates([]edgeIn{{cond: cond, st: branch}, {cond: tTrue, st: st}})
	merged.defers = st.defers
	*st = *merged
}

// ---- builtins -----------------------------------------------------------------------------------

func (u *Unit) execBuiltin(fr *Frame, b *ssa.Builtin, c *ssa.CallCommon, st *State, reach Term, resT types.Type) Val {
	var args []Val
	for _, a := range c.Args {
		args = append(args, u.value(fr, a))
	}
	switch b.Name() {
	case "len":
		switch t := c.Args[0].Type().Underlying().(type) {
		case *types.Slice:
			return Val{T: u.def(sLen(args[0].T)), Typ: resT}
		case *types.Basic:
			return Val{T: u.def(app("Int", "blen", args[0].T)), Typ: resT}
		case *types.Array:
			return Val{T: intLit(t.Len()), Typ: resT}
		case *types.Pointer:
			return Val{T: intLit(t.Elem().Underlying().(*types.Array).Len()), Typ: resT}
		case *types.Map:
			f := "maplen_" + mangle(u.typeKey(t))
			_, dh, _, _ := u.mapHeaps(st, t)
			u.declareOnce(f, fmt.Sprintf("(declare-fun %s (%s) Int)", f, arrayElem(dh.Sort)))
			r := u.def(ite(eq(args[0].T, intLit(0)), intLit(0), app("Int", f, sel(dh, args[0].T))))
			u.assume(tTrue, app("Bool", ">=", r, intLit(0)))
			u.note("len(map) is an uninterpreted non-negative function of the key set")
			return Val{T: r, Typ: resT}
		case *types.Chan:
			v := u.freshVal(st, "chanlen", resT)
			u.assume(tTrue, app("Bool", ">=", v.T, intLit(0)))
			return v
		}
	case "cap":
		switch t := c.Args[0].Type().Underlying().(type) {
		case *types.Slice:
			return Val{T: u.def(sCap(args[0].T)), Typ: resT}
		case *types.Array:
			return Val{T: intLit(t.Len()), Typ: resT}
		case *types.Chan:
			v := u.freshVal(st, "chancap", resT)
			u.assume(tTrue, app("Bool", ">=", v.T, intLit(0)))
			return v
		}
	case "append":
		return u.execAppend(fr, c, args, st, reach, resT)
	case "copy":
		return u.execCopy(fr, c, args, st, reach, resT)
	case "delete":
		mt := c.Args[0].Type().Underlying().(*types.Map)
		dn, dh, _, _ := u.mapHeaps(st, mt)
		m := args[0].T
		u.mapLenStep(st, mt, u.def(sel(dh, m)), u.def(sto(sel(dh, m), u.termOf(args[1]), tFalse)), u.termOf(args[1]), false)
		st.heaps[dn] = u.def(ite(eq(m, intLit(0)), dh, sto(dh, m, sto(sel(dh, m), u.termOf(args[1]), tFalse))))
		return Val{Typ: resT}
	case "print", "println":
		return Val{Typ: resT}
	case "min", "max":
		if args[0].T.Sort == "Int" {
			acc := args[0].T
			for _, a := range args[1:] {
				acc = app("Int", "i"+b.Name(), acc, a.T)
			}
			return Val{T: u.def(acc), Typ: resT}
		}
	case "recover":
		u.recovered = true
		return Val{T: u.fresh("recovered", "Iface"), Typ: resT}
	case "ssa:wrapnilchk":
		return args[0]
	case "ssa:deferstack":
		return Val{T: u.fresh("deferstack", "Int"), Typ: resT}
	case "close":
		return Val{Typ: resT}
	case "clear":
		if mt, ok := c.Args[0].Type().Underlying().(*types.Map); ok {
			dn, dh, _, _ := u.mapHeaps(st, mt)
			ks := u.sortOf(mt.Key())
			st.heaps[dn] = u.def(sto(dh, args[0].T, constArray(arraySort(ks, "Bool"), tFalse)))
			return Val{Typ: resT}
		}
	case "new":
	}
	u.unsupportedf("builtin %s on %s", b.Name(), c.Args[0].Type())
	return Val{}
}

// execAppend models append(s, elems...): in place when capacity suffices, else a fresh array
// holding a copy. The variadic argument is a slice (or a string for append([]byte, string...)).
func (u *Unit) execAppend(fr *Frame, c *ssa.CallCommon, args []Val, st *State, reach Term, resT types.Type) Val {
	sl := c.Args[0].Type().Underlying().(*types.Slice)
	elem := sl.Elem()
	es := u.sortOf(elem)
	s := args[0].T
	name, h := u.memHeap(st, elem)
	var n Term          // number of appended elements
	var src func(j Term) Term // j-th appended element (bound variable allowed)
	if args[1].T.Sort == "Bytes" {
		n = app("Int", "blen", args[1].T)
		src = func(j Term) Term { return app("Int", "bat", args[1].T, j) }
	} else {
		t := args[1].T
		n = sLen(t)
		srcRow, srcOff := u.def(sel(h, u.def(sArr(t)))), u.def(sOff(t))
		src = func(j Term) Term { return sel(srcRow, app("Int", "+", srcOff, j)) }
	}
	n = u.def(n)
	ln, cp, off, arr := u.def(sLen(s)), u.def(sCap(s)), u.def(sOff(s)), u.def(sArr(s))
	newLen := u.def(app("Int", "+", ln, n))
	fits := u.def(app("Bool", "<=", newLen, cp))
	// result slice
	r := u.newRef(st)
	newCap := u.fresh("appendcap", "Int")
	u.assume(tTrue, app("Bool", ">=", newCap, newLen))
	res := u.def(ite(eq(n, intLit(0)), s, ite(fits, mkSlice(arr, off, newLen, cp), mkSlice(r, intLit(0), newLen, newCap))))
	// new memory: described pointwise
	tgtArr := u.def(ite(fits, arr, r))
	tgtOff := u.def(ite(fits, off, intLit(0)))
	row := u.fresh("row", arraySort("Int", es))
	// the target row, pointwise: old prefix (copied when reallocated), the appended elements and -
	// when appending in place - every other cell unchanged; all other rows are untouched.
	oldRow := u.def(sel(h, arr))
	kOld := sel(oldRow, Term{fmt.Sprintf("(+ %s (- k %s))", off.S, tgtOff.S), "Int"}).S
	kNew := src(Term{fmt.Sprintf("(- (- k %s) %s)", tgtOff.S, ln.S), "Int"}).S
	u.assume(tTrue, Term{fmt.Sprintf("(forall ((k Int)) (! (and (=> (and (<= %s k) (< k (+ %s %s))) (= (select %s k) %s)) (=> (and (<= (+ %s %s) k) (< k (+ %s %s))) (= (select %s k) %s)) (=> (and %s (or (< k %s) (>= k (+ %s %s)))) (= (select %s k) %s))) :pattern ((select %s k))))",
		tgtOff.S, tgtOff.S, ln.S, row.S, kOld,
		tgtOff.S, ln.S, tgtOff.S, newLen.S, row.S, kNew,
		fits.S, tgtOff.S, tgtOff.S, newLen.S, row.S, sel(oldRow, Term{"k", "Int"}).S,
		row.S), "Bool"})
	var cat0, cat1 Term
	wantCat := false
	if u.Contract != nil && u.Contract.Opts["bytescat"] != "" && u.typeKey(elem) == "uint8" {
		// the content of the result as a byte string: old content ++ appended bytes (a fact of Go's
		// append; stated on request because it saves the solvers an extensionality argument)
		wantCat = true
		cat0 = u.bytesOf(st, s)
		if args[1].T.Sort == "Bytes" {
			cat1 = args[1].T
		} else {
			cat1 = u.bytesOf(st, args[1].T)
		}
	}
	st.heaps[name] = u.def(ite(eq(n, intLit(0)), h, sto(h, tgtArr, row)))
	if wantCat {
		u.assume(tTrue, eq2(u.bytesOf(st, res), app("Bytes", "bcat", cat0, cat1)))
	}
	return Val{T: res, Typ: resT}
}

func (u *Unit) execCopy(fr *Frame, c *ssa.CallCommon, args []Val, st *State, reach Term, resT types.Type) Val {
	sl := c.Args[0].Type().Underlying().(*types.Slice)
	elem := sl.Elem()
	name, h := u.memHeap(st, elem)
	d := args[0].T
	var n Term
	var src func(j string) string
	if args[1].T.Sort == "Bytes" {
		n = app("Int", "imin", sLen(d), app("Int", "blen", args[1].T))
		src = func(j string) string { return fmt.Sprintf("(bat %s %s)", args[1].T.S, j) }
	} else {
		t := args[1].T
		n = app("Int", "imin", sLen(d), sLen(t))
		srcRow := u.def(sel(h, u.def(sArr(t))))
		srcOff := u.def(sOff(t))
		src = func(j string) string {
			return sel(srcRow, Term{fmt.Sprintf("(+ %s %s)", srcOff.S, j), "Int"}).S
		}
	}
	n = u.def(n)
	arr, off := u.def(sArr(d)), u.def(sOff(d))
	row := u.fresh("row", arrayElem(h.Sort))
	oldRow := u.def(sel(h, arr))
	u.assume(tTrue, Term{fmt.Sprintf("(forall ((k Int)) (! (and (=> (and (<= %s k) (< k (+ %s %s))) (= (select %s k) %s)) (=> (or (< k %s) (>= k (+ %s %s))) (= (select %s k) %s))) :pattern ((select %s k))))",
		off.S, off.S, n.S, row.S, src(fmt.Sprintf("(- k %s)", off.S)),
		off.S, off.S, n.S, row.S, sel(oldRow, Term{"k", "Int"}).S, row.S), "Bool"})
	// n == 0: nothing changes at all
	st.heaps[name] = u.def(ite(app("Bool", "<=", n, intLit(0)), h, sto(h, arr, row)))
	return Val{T: n, Typ: resT}
}

// ---- contracts at call sites ---------------------------------------------------------------------

// sigNames returns receiver/parameter names and result names of a callee.
func sigNames(c *ssa.CallCommon, fn *ssa.Function) (params []string, results []string, sig *types.Signature) {
	sig = c.Signature()
	if fn != nil && len(fn.Params) > 0 {
		sig = fn.Signature
		for _, p := range fn.Params {
			params = append(params, p.Name())
		}
	} else if fn != nil {
		// function without a body (loaded from export data): names come from the signature
		sig = fn.Signature
		if r := sig.Recv(); r != nil {
			n := r.Name()
			if n == "" {
				n = "recv"
			}
			params = append(params, n)
		}
		for i := 0; i < sig.Params().Len(); i++ {
			params = append(params, sig.Params().At(i).Name())
		}
	} else {
		if c.IsInvoke() {
			params = append(params, "recv")
			sig = c.Method.Type().(*types.Signature)
		}
		for i := 0; i < sig.Params().Len(); i++ {
			params = append(params, sig.Params().At(i).Name())
		}
	}
	for i := 0; i < sig.Results().Len(); i++ {
		results = append(results, sig.Results().At(i).Name())
	}
	return
}

func (u *Unit) contractEnv(ct *Contract, params []string, args []Val, st, old *State) *Env {
	env := &Env{u: u, st: st, old: old, vars: map[string]Val{}, pkg: ct.Pkg}
	for i, p := range params {
		if i < len(args) && p != "" && p != "_" {
			env.vars[p] = args[i]
		}
	}
	if len(params) > 0 && len(args) > 0 {
		env.vars["recv"] = args[0]
	}
	for i, a := range args {
		env.vars[fmt.Sprintf("arg%d", i)] = a
	}
	return env
}

func (u *Unit) applyContract(fr *Frame, ct *Contract, name string, c *ssa.CallCommon, args []Val, st *State, reach Term, resT types.Type) Val {
	fn := c.StaticCallee()
	params, resNames, _ := sigNames(c, fn)
	short := name
	if i := strings.LastIndex(short, "/"); i >= 0 {
		short = short[i+1:]
	}
	u.comment("call " + name + " by contract")
	env := u.contractEnv(ct, params, args, st, st)
	for k, rq := range ct.Requires {
		f := u.evalBool(rq.Expr, env)
		u.oblige("pre", reach, f, "pre", fmt.Sprintf("%s,%d", short, k), rq.Src)
	}
	old := st.clone()
	// frame
	switch {
	case !ct.HasFrame:
		for _, a := range args {
			u.havocReachableCell(fr, st, a)
		}
		u.havocAllCall(fr, st, name)
	case len(ct.Frame) == 1 && ct.Frame[0] == "nothing":
	default:
		var hs []string
		allocates := false
		var excl map[string]bool
		for _, f := range ct.Frame {
			if strings.HasPrefix(f, "~") {
				// ~T.f : anything may change except the listed heaps (trusted contracts only)
				if excl == nil {
					excl = map[string]bool{}
				}
				for _, h := range u.resolveFrameItem(ct, strings.TrimSpace(f[1:])) {
					excl[h] = true
				}
			}
		}
		if excl != nil {
			var keepN []string
			var keepT []Term
			for h := range excl {
				if _, ok := st.heaps[h]; !ok {
					u.ensureHeapByName(st, h)
				}
				if _, ok := u.heapSort[h]; ok {
					keepN = append(keepN, h)
				}
			}
			sortStrings(keepN)
			for _, h := range keepN {
				keepT = append(keepT, u.heapNow(st, h))
			}
			// exempt heaps nothing has looked at yet (sort unknown): when they are first looked at
			// they have the version they had before this call
			prev := map[string]string{}
			for h := range excl {
				if _, ok := u.heapSort[h]; ok {
					continue
				}
				if t, ok := st.pending[h]; ok {
					prev[h] = t
				} else {
					prev[h] = st.epoch
				}
			}
			for _, a := range args {
				u.havocReachableCell(fr, st, a)
			}
			u.havocAllCall(fr, st, name)
			for i, h := range keepN {
				st.heaps[h] = keepT[i]
			}
			for h, t := range prev {
				if st.pending == nil {
					st.pending = map[string]string{}
				}
				st.pending[h] = t
			}
			break
		}
		for _, f := range ct.Frame {
			if f == "allocates" {
				allocates = true
				continue
			}
			if strings.HasPrefix(f, "*") && !strings.HasPrefix(f, "*.") {
				// *param: the cell a pointer argument designates ("*.ghost" is a wildcard ghost field, below)
				pn := strings.TrimSpace(f[1:])
				for i, p := range params {
					if p == pn && i < len(args) {
						a := args[i]
						if a.Boxed != nil {
							a = *a.Boxed // an interface argument made from a pointer: the pointee changes
						}
						u.havocPointee(fr, st, a, c, i)
					}
				}
				continue
			}
			if strings.HasPrefix(f, "@") {
				// @param : the backing array of a slice argument (and nothing else in that memory)
				pn := strings.TrimSpace(f[1:])
				for k, p := range params {
					if p == pn && k < len(args) && args[k].T.Sort == "Slice" && args[k].Typ != nil {
						elem := args[k].Typ.Underlying().(*types.Slice).Elem()
						name, h := u.memHeap(st, elem)
						row := u.fresh("row", arrayElem(h.Sort))
						if u.sortOf(elem) == "Int" {
							lo, hi, ok := intRange(elem)
							if ok {
								u.assume(tTrue, Term{fmt.Sprintf("(forall ((k Int)) (! (and (<= %s (select %s k)) (<= (select %s k) %s)) :pattern ((select %s k))))", bigLit(lo).S, row.S, row.S, bigLit(hi).S, row.S), "Bool"})
							}
						}
						st.heaps[name] = u.def(sto(h, sArr(args[k].T), row))
					}
				}
				continue
			}
			if at := strings.Index(f, "@"); at > 0 && strings.HasPrefix(f, "map:") {
				// map:K|V@expr : only the map that expr denotes (in the pre-state) changes
				ex, err := parseSpec(f[at+1:])
				if err != nil {
					u.specFail("frame item %s of %s: %v", f, name, err)
					continue
				}
				mv := u.eval(ex, env)
				if mv.Typ != nil {
					if mt, ok := mv.Typ.Underlying().(*types.Map); ok {
						u.mapHeaps(st, mt)
					}
				}
				for _, hn := range u.resolveFrameItem(ct, f) {
					if _, ok := u.heapSort[hn]; !ok {
						u.specFail("frame item %s of %s: unknown map heap %s", f, name, hn)
						continue
					}
					h := u.heap(st, hn, u.heapSort[hn])
					st.heaps[hn] = u.def(sto(h, mv.T, u.fresh("mapcontent", arrayElem(h.Sort))))
				}
				continue
			}
			if i := strings.Index(f, "."); i > 0 {
				// param.ghost : only the abstract state of that one object changes
				if g, ok := u.W.Ghosts["*."+f[i+1:]]; ok {
					done := false
					for k, p := range params {
						if p == f[:i] && k < len(args) {
							h, key := u.wildGhost(st, g, args[k])
							st.heaps["GH:*."+g.Field] = u.def(sto(h, key, u.fresh("gh_"+g.Field, g.Sort)))
							done = true
						}
					}
					if done {
						continue
					}
				}
			}
			hs = append(hs, u.resolveFrameItem(ct, f)...)
		}
		for _, h := range hs {
			if _, ok := u.heapSort[h]; !ok {
				u.ensureHeapByName(st, h)
			}
		}
		if len(hs) > 0 {
			u.havocHeaps(st, hs, name)
		}
		if allocates {
			u.havocAllocatesOnly(st, old)
		}
	}
	st.ghostCalled["called:"+name] = tTrue
	if ct.HasFrame {
		// the callee may allocate: the allocation counter only grows
		prev := st.alloc
		st.alloc = u.fresh("alloc", "Int")
		u.assume(tTrue, app("Bool", ">=", st.alloc, prev))
	}
	res := u.freshResult(st, resT, name)
	if _, fresh := ct.Opts["fresh"]; fresh && res.Tup == nil && res.T.Sort == "Int" {
		// the callee returns a newly allocated object
		res.T = u.newRef(st)
		res.NonNil = true
	}
	if _, fnl := ct.Opts["functional"]; fnl {
		u.functionalResult(st, name, args, res, reach)
	}
	env2 := u.contractEnv(ct, params, args, st, old)
	bindResults(env2, res, resNames)
	for _, en := range ct.Ensures {
		// a clause that talks about the callee's locals (or its own callees' results) is internal to
		// the callee: the caller simply does not get it
		f, ok := u.tryEvalBool(en.Expr, env2)
		if ok {
			u.assume(reach, f)
		} else if ct.Kind == "trusted" {
			u.specFail("clause of the trusted contract of %s cannot be evaluated at a call site (%s): %s", name, u.lastSpecErr, en.Src)
		}
	}
	for _, en := range ct.AssumedEnsures {
		f := u.evalBool(en.Expr, env2)
		u.assume(reach, f)
		u.note("assumed (definitional) postcondition of " + name + ": " + en.Src)
	}
	return res
}

func bindResults(env *Env, res Val, names []string) {
	if res.Tup != nil {
		for i, r := range res.Tup {
			env.vars[fmt.Sprintf("result%d", i)] = r
			if i < len(names) && names[i] != "" && names[i] != "_" {
				if _, exists := env.vars[names[i]]; !exists {
					env.vars[names[i]] = r
				}
			}
		}
		if len(res.Tup) > 0 {
			env.vars["result"] = res.Tup[0]
		}
		return
	}
	if res.T.S != "" || res.Loc != nil {
		env.vars["result"] = res
		env.vars["result0"] = res
		if len(names) == 1 && names[0] != "" && names[0] != "_" {
			if _, exists := env.vars[names[0]]; !exists {
				env.vars[names[0]] = res
			}
		}
	}
}

func (u *Unit) havocPointee(fr *Frame, st *State, a Val, c *ssa.CallCommon, idx int) {
	if a.Loc != nil {
		l := a.Loc
		if l.Kind == LCell {
			st.cells[l.Cell] = u.freshVal(st, "out_"+l.Cell.Name, l.Cell.Typ)
			return
		}
		v := u.freshVal(st, "out", l.Elem)
		u.store(st, l, v)
		return
	}
	if a.Typ == nil {
		return
	}
	if pt, ok := a.Typ.Underlying().(*types.Pointer); ok {
		l := u.pointerLoc(st, a, a.Typ)
		if l.Kind == LOpaque {
			return
		}
		v := u.freshVal(st, "out", pt.Elem())
		u.store(st, l, v)
		return
	}
	// an interface value of unknown origin: anything may be its pointee
	u.havocHeaps(st, nil, "pointee of an interface argument")
}

// ensureHeapByName declares a heap that has not been touched yet (so that a frame can mention it).
func (u *Unit) ensureHeapByName(st *State, name string) {
	if strings.HasPrefix(name, "GH:") {
		if g, ok := u.W.Ghosts[name[3:]]; ok {
			u.heap(st, name, u.ghostHeapSort(g))
		}
	}
	if strings.HasPrefix(name, "F:") {
		// F:<pkg path>.<Type>.<field>
		rest := name[2:]
		i := strings.LastIndex(rest, ".")
		if i < 0 {
			return
		}
		field, tn := rest[i+1:], rest[:i]
		j := strings.LastIndex(tn, ".")
		if j < 0 {
			return
		}
		sp := u.W.SSAPkgs[tn[:j]]
		if sp == nil {
			if p := u.W.Prog.ImportedPackage(tn[:j]); p != nil {
				sp = p
			}
		}
		if sp == nil {
			return
		}
		obj, ok := sp.Pkg.Scope().Lookup(tn[j+1:]).(*types.TypeName)
		if !ok {
			return
		}
		stt, key, ok := u.transparentStruct(obj.Type())
		if !ok {
			return
		}
		for k := 0; k < stt.NumFields(); k++ {
			if stt.Field(k).Name() == field && u.fieldHeapName(key, stt, k) == name {
				u.heap(st, name, arraySort("Int", u.sortOf(stt.Field(k).Type())))
			}
		}
	}
}

// havocAllocatesOnly: heaps may change only at references allocated after `old`.
func (u *Unit) havocAllocatesOnly(st *State, old *State) {
	var names []string
	for n := range u.heapSort {
		names = append(names, n)
	}
	sortStrings(names)
	oldAlloc := old.alloc
	for _, n := range names {
		s := u.heapSort[n]
		if !strings.HasPrefix(s, "(Array Int ") || strings.HasPrefix(n, "G:") || strings.HasPrefix(n, "GH:") {
			continue
		}
		prev := u.heap(old, n, s)
		if cur, ok := st.heaps[n]; ok && cur.S != prev.S {
			continue // already havocked by an explicit frame item
		}
		nh := u.fresh("H_"+mangle(n), s)
		u.assume(tTrue, Term{fmt.Sprintf("(forall ((a Int)) (! (=> (< a %s) (= (select %s a) %s)) :pattern ((select %s a))))", oldAlloc.S, nh.S, sel(prev, Term{"a", "Int"}).S, nh.S), "Bool"})
		withSt(nh, &tstruct{kind: 'A', a: oldAlloc, b: prev})
		st.heaps[n] = nh
	}
	na := u.fresh("alloc", "Int")
	u.assume(tTrue, app("Bool", ">=", na, st.alloc))
	st.alloc = na
}

func sortStrings(s []string) {
	for i := 1; i < len(s); i++ {
		for j := i; j > 0 && s[j] < s[j-1]; j-- {
			s[j], s[j-1] = s[j-1], s[j]
		}
	}
}

// callAsserts evaluates the assert@call clauses of the function under proof that match this callee.
func (u *Unit) callAsserts(fr *Frame, name string, args []Val, c *ssa.CallCommon, st *State, reach Term) {
	top := fr
	for top.parent != nil {
		top = top.parent
	}
	if top.ct == nil || fr != top {
		return
	}
	for k, ca := range top.ct.CallAsserts {
		if !strings.Contains(name, ca.Callee) {
			continue
		}
		callee := ca.Callee
		n := u.siteIndex(fr.fn, c, func(nm string) bool { return strings.Contains(nm, callee) })
		if ca.Nth >= 0 && ca.Nth != n {
			continue
		}
		u.ordinals[fmt.Sprintf("callassert:%d", k)]++
		env := u.loopEnv(fr, st)
		for i, a := range args {
			env.vars[fmt.Sprintf("arg%d", i)] = a
		}
		f := u.evalClause(ca.Clause.Expr, env)
		detail := shortName(ca.Callee)
		if ca.Nth >= 0 {
			detail = fmt.Sprintf("%s#%d", detail, ca.Nth)
		}
		u.oblige("assert@call", reach, f, "assert@call", detail, ca.Clause.Src)
	}
}

func shortName(n string) string {
	if i := strings.LastIndex(n, "/"); i >= 0 {
		return n[i+1:]
	}
	return n
}
