package main

import "strings"

// relevantQuery keeps, of the assertions that precede the goal, only those connected to the goal
// through shared symbols within `depth` steps (definitions are followed for free). Declarations and
// definitions are all kept. Dropping assumptions only weakens the premises, so an `unsat` answer to
// the filtered query is a proof of the original obligation.
func relevantQuery(query string, depth int) string {
	lines := strings.Split(query, "\n")
	goalAt := -1
	endPrelude := 0
	for i, l := range lines {
		if strings.HasPrefix(l, "; obligation ") {
			goalAt = i
		}
		if strings.HasPrefix(l, "; ---- end prelude") {
			endPrelude = i
		}
	}
	if goalAt < 0 {
		return query
	}
	// symbols introduced after the prelude
	declared := map[string]bool{}
	defBody := map[string][]string{}
	lineSyms := make([][]string, len(lines))
	for i := endPrelude; i < len(lines); i++ {
		l := lines[i]
		if strings.HasPrefix(l, "(declare-const ") || strings.HasPrefix(l, "(declare-fun ") || strings.HasPrefix(l, "(define-fun ") {
			toks := tokenize(l)
			if len(toks) > 2 {
				declared[toks[2]] = true
			}
		}
	}
	symsOf := func(l string) []string {
		var out []string
		seen := map[string]bool{}
		for _, t := range tokenize(l) {
			if declared[t] && !seen[t] {
				seen[t] = true
				out = append(out, t)
			}
		}
		return out
	}
	for i := endPrelude; i < len(lines); i++ {
		l := lines[i]
		if strings.HasPrefix(l, "(define-fun ") {
			toks := tokenize(l)
			name := toks[2]
			var body []string
			for _, s := range symsOf(l) {
				if s != name {
					body = append(body, s)
				}
			}
			defBody[name] = body
		} else if strings.HasPrefix(l, "(assert") {
			lineSyms[i] = symsOf(l)
		}
	}
	rel := map[string]bool{}
	var add func(s string)
	add = func(s string) {
		if rel[s] {
			return
		}
		rel[s] = true
		for _, b := range defBody[s] {
			add(b)
		}
	}
	for i := goalAt; i < len(lines); i++ {
		for _, s := range symsOf(lines[i]) {
			add(s)
		}
	}
	keep := map[int]bool{}
	for d := 0; d < depth; d++ {
		var newSyms []string
		for i := endPrelude; i < goalAt; i++ {
			if keep[i] || lineSyms[i] == nil {
				continue
			}
			hit := false
			for _, s := range lineSyms[i] {
				if rel[s] {
					hit = true
					break
				}
			}
			if hit {
				keep[i] = true
				newSyms = append(newSyms, lineSyms[i]...)
			}
		}
		for _, s := range newSyms {
			add(s)
		}
	}
	var out []string
	for i, l := range lines {
		if i > endPrelude && i < goalAt && strings.HasPrefix(l, "(assert") && !keep[i] && len(lineSyms[i]) > 0 {
			continue
		}
		out = append(out, l)
	}
	return strings.Join(out, "\n")
}
