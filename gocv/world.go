package main

import (
	"fmt"
	"go/token"
	"go/types"
	"os"
	"path/filepath"
	"sort"
	"strings"

	"golang.org/x/tools/go/packages"
	"golang.org/x/tools/go/ssa"
	"golang.org/x/tools/go/ssa/ssautil"
)

// World is everything loaded from the working tree of the repository under verification.
type World struct {
	Repo      string
	Module    string
	Fset      *token.FileSet
	Pkgs      []*packages.Package
	Prog      *ssa.Program
	SSAPkgs   map[string]*ssa.Package // by package path
	Contracts map[string]*Contract    // by canonical function name
	CFiles    []*ContractFile
	Ghosts    map[string]GhostField // "pkgpath.Type.field"
	SMTFuns   map[string]smtSig
	SpecLines []string
	SpecDir   string
	LoadSecs  float64
	GlobalFacts map[*ssa.Global]*GlobalFact
	GoOracles   map[string]bool
}

type smtSig struct {
	Args []string
	Ret  string
}

// loadWorld loads the given package patterns (relative to the repository) with syntax; everything
// else comes from export data.
func loadWorld(repo string, patterns []string, specDir string, overlay map[string][]byte) (*World, error) {
	w := &World{Repo: repo, Module: "github.com/33cn/chain33", SSAPkgs: map[string]*ssa.Package{}, Contracts: map[string]*Contract{},
		Ghosts: map[string]GhostField{}, SMTFuns: map[string]smtSig{}, SpecDir: specDir}
	w.Fset = token.NewFileSet()
	cfg := &packages.Config{
		Mode: packages.NeedName | packages.NeedFiles | packages.NeedCompiledGoFiles | packages.NeedImports |
			packages.NeedTypes | packages.NeedTypesSizes | packages.NeedSyntax | packages.NeedTypesInfo,
		Dir: repo, BuildFlags: []string{"-tags=verif"}, Fset: w.Fset, Overlay: overlay,
		Env: append(os.Environ(), "GOFLAGS=-mod=mod", "GOPROXY=off", "GOSUMDB=off", "GOTOOLCHAIN=local"),
	}
	pkgs, err := packages.Load(cfg, patterns...)
	if err != nil {
		return nil, err
	}
	var errs []string
	for _, p := range pkgs {
		for _, e := range p.Errors {
			errs = append(errs, e.Error())
		}
	}
	if len(errs) > 0 {
		return nil, fmt.Errorf("package errors: %s", strings.Join(errs, "; "))
	}
	w.Pkgs = pkgs
	prog, spkgs := ssautil.Packages(pkgs, ssa.NaiveForm)
	w.Prog = prog
	for i, sp := range spkgs {
		if sp == nil {
			return nil, fmt.Errorf("no SSA for %s", pkgs[i].PkgPath)
		}
		sp.Build()
		w.SSAPkgs[pkgs[i].PkgPath] = sp
	}
	// contract files
	for _, p := range pkgs {
		dir := ""
		if len(p.GoFiles) > 0 {
			dir = filepath.Dir(p.GoFiles[0])
		}
		if dir == "" {
			continue
		}
		path := filepath.Join(dir, "contracts_verif.go")
		if data, ok := overlay[path]; ok {
			tmp, _ := os.CreateTemp("", "cv*.go")
			tmp.Write(data)
			tmp.Close()
			cf, err := parseContractFile(tmp.Name(), p.PkgPath)
			os.Remove(tmp.Name())
			if err != nil {
				return nil, err
			}
			w.addContractFile(cf)
			continue
		}
		if _, err := os.Stat(path); err == nil {
			cf, err := parseContractFile(path, p.PkgPath)
			if err != nil {
				return nil, err
			}
			w.addContractFile(cf)
		}
	}
	// global contracts for library functions
	if specDir != "" {
		files, _ := filepath.Glob(filepath.Join(specDir, "*.contracts"))
		sort.Strings(files)
		for _, f := range files {
			cf, err := parseContractFile(f, "")
			if err != nil {
				return nil, err
			}
			w.addContractFile(cf)
		}
	}
	for _, cf := range w.CFiles {
		for _, imp := range cf.Imports {
			data, err := os.ReadFile(filepath.Join(specDir, imp))
			if err != nil {
				return nil, err
			}
			w.SpecLines = append(w.SpecLines, "; import "+imp)
			w.SpecLines = append(w.SpecLines, string(data))
			w.scanSMTSigs(string(data))
		}
		for _, l := range cf.SMT {
			w.SpecLines = append(w.SpecLines, l)
			w.scanSMTSigs(l)
		}
		for _, l := range cf.GoLines {
			if i := strings.Index(l, "func oracle_"); i >= 0 {
				name := l[i+len("func oracle_"):]
				if j := strings.Index(name, "("); j > 0 {
					if w.GoOracles == nil {
						w.GoOracles = map[string]bool{}
					}
					w.GoOracles[name[:j]] = true
				}
			}
		}
	}
	w.scanSMTSigs(prelude)
	w.computeGlobalFacts()
	return w, nil
}

func (w *World) addContractFile(cf *ContractFile) {
	w.CFiles = append(w.CFiles, cf)
	for _, c := range cf.Contracts {
		name := c.Name
		if cf.Pkg != "" && !strings.Contains(name, "/") && localHead(name) {
			name = qualify(cf.Pkg, name)
		}
		c.Name = name
		if old := w.Contracts[name]; old != nil {
			// a verified contract and a trusted declaration of the same function (made by a client
			// package) may both exist: the verified one wins and inherits a frame if it has none
			keep, other := old, c
			if old.Kind != "func" && c.Kind == "func" {
				keep, other = c, old
			}
			if keep.Kind == "trusted" && other.Kind == "trusted" {
				// two trusted declarations of one function: both sets of assumptions apply; the
				// frame is the union of what either allows
				keep.Requires = append(keep.Requires, other.Requires...)
				keep.Ensures = append(keep.Ensures, other.Ensures...)
				switch {
				case !keep.HasFrame || !other.HasFrame:
					keep.HasFrame, keep.Frame = false, nil
				default:
					var fr []string
					for _, f := range append(append([]string{}, keep.Frame...), other.Frame...) {
						if f != "nothing" {
							fr = append(fr, f)
						}
					}
					if len(fr) == 0 {
						fr = []string{"nothing"}
					}
					keep.Frame = fr
				}
				for k, v := range other.Opts {
					keep.Opts[k] = v
				}
				w.Contracts[name] = keep
				continue
			}
			if keep.Kind == "func" && other.Kind == "trusted" {
				// extra assumed clauses about a verified function are kept as assumed postconditions
				keep.AssumedEnsures = append(keep.AssumedEnsures, other.Ensures...)
			}
			if v, ok := other.Opts["functional"]; ok && other.Kind == "trusted" {
				keep.Opts["functional"] = v // an assumption about call sites, not about the body
			}
			if !keep.HasFrame && other.HasFrame {
				// the frame comes from a trusted declaration: callers rely on it, the body is not
				// checked against it (reported as an assumption)
				keep.HasFrame, keep.Frame, keep.FrameTrusted = true, other.Frame, true
			}
			w.Contracts[name] = keep
			continue
		}
		w.Contracts[name] = c
	}
	for _, g := range cf.Ghosts {
		t := g.Type
		if t != "*" && !strings.Contains(t, "/") && cf.Pkg != "" && !strings.Contains(t, ".") {
			t = cf.Pkg + "." + t
		}
		g.Type = t
		w.Ghosts[t+"."+g.Field] = g
	}
}

func localHead(n string) bool {
	// a name such as bytes.Equal is qualified by a package; T.M is local. We treat a leading
	// lower-case head followed by '.' as a package qualifier.
	if strings.HasPrefix(n, "(") {
		j := strings.Index(n, ")")
		return j > 0 && !strings.Contains(n[:j], ".")
	}
	s := n
	i := strings.Index(s, ".")
	if i < 0 {
		return true
	}
	head := s[:i]
	return head != "" && head[0] >= 'A' && head[0] <= 'Z'
}

// qualify turns a local contract name into the canonical name used by funcName.
func qualify(pkg, n string) string {
	if strings.HasPrefix(n, "(*") {
		return "(*" + pkg + "." + n[2:]
	}
	if strings.HasPrefix(n, "(") {
		return "(" + pkg + "." + n[1:]
	}
	if i := strings.Index(n, "."); i >= 0 {
		// T.M  => (pkg.T).M
		return "(" + pkg + "." + n[:i] + ")." + n[i+1:]
	}
	return pkg + "." + n
}

// funcName is the canonical name of a function: pkg/path.F, (*pkg/path.T).M, (pkg/path.T).M, pkg/path.F$1
func funcName(fn *ssa.Function) string {
	if fn == nil {
		return "<nil>"
	}
	if fn.Parent() != nil {
		return funcName(fn.Parent()) + "$" + anonIndex(fn)
	}
	if recv := fn.Signature.Recv(); recv != nil {
		return "(" + typeString(recv.Type()) + ")." + fn.Name()
	}
	if fn.Pkg != nil {
		return fn.Pkg.Pkg.Path() + "." + fn.Name()
	}
	if fn.Object() != nil && fn.Object().Pkg() != nil {
		return fn.Object().Pkg().Path() + "." + fn.Name()
	}
	return fn.String()
}

func anonIndex(fn *ssa.Function) string {
	for i, a := range fn.Parent().AnonFuncs {
		if a == fn {
			return fmt.Sprint(i + 1)
		}
	}
	return fn.Name()
}

func typeString(t types.Type) string {
	return types.TypeString(t, func(p *types.Package) string { return p.Path() })
}

// methodName is the canonical name of an interface method: (pkg/path.I).M
func methodName(recv types.Type, m *types.Func) string {
	return "(" + typeString(recv) + ")." + m.Name()
}

func (w *World) lookupFunc(name string) *ssa.Function {
	// name is canonical
	for path, sp := range w.SSAPkgs {
		if !strings.Contains(name, path+".") {
			continue
		}
		switch {
		case strings.HasPrefix(name, "("):
			// method
			i := strings.Index(name, ").")
			recv, meth := name[1:i], name[i+2:]
			closure := ""
			if j := strings.Index(meth, "$"); j >= 0 {
				meth, closure = meth[:j], meth[j:]
			}
			ptr := strings.HasPrefix(recv, "*")
			tn := strings.TrimPrefix(strings.TrimPrefix(recv, "*"), path+".")
			obj := sp.Pkg.Scope().Lookup(tn)
			if obj == nil {
				continue
			}
			var t types.Type = obj.Type()
			if ptr {
				t = types.NewPointer(t)
			}
			ms := w.Prog.MethodSets.MethodSet(t)
			for i := 0; i < ms.Len(); i++ {
				if ms.At(i).Obj().Name() == meth {
					fn := w.Prog.MethodValue(ms.At(i))
					if fn != nil && fn.Synthetic == "" || fn != nil && !ptr {
						return descend(fn, closure)
					}
					if fn != nil {
						return descend(fn, closure)
					}
				}
			}
		default:
			rest := strings.TrimPrefix(name, path+".")
			if strings.Contains(rest, "/") || strings.Contains(strings.SplitN(rest, "$", 2)[0], ".") {
				continue
			}
			closure := ""
			if j := strings.Index(rest, "$"); j >= 0 {
				rest, closure = rest[:j], rest[j:]
			}
			if fn := sp.Func(rest); fn != nil {
				return descend(fn, closure)
			}
		}
	}
	return nil
}

func descend(fn *ssa.Function, closure string) *ssa.Function {
	for closure != "" && fn != nil {
		closure = closure[1:]
		idx := closure
		if j := strings.Index(closure, "$"); j >= 0 {
			idx, closure = closure[:j], closure[j:]
		} else {
			closure = ""
		}
		var k int
		fmt.Sscan(idx, &k)
		if k < 1 || k > len(fn.AnonFuncs) {
			return nil
		}
		fn = fn.AnonFuncs[k-1]
	}
	return fn
}

func (w *World) scanSMTSigs(text string) {
	toks := tokenize(text)
	for i := 0; i+2 < len(toks); i++ {
		if toks[i] != "(" {
			continue
		}
		kw := toks[i+1]
		if kw != "declare-fun" && kw != "define-fun" && kw != "declare-const" && kw != "define-fun-rec" {
			continue
		}
		name := toks[i+2]
		pos := i + 3
		var args []string
		readSort := func() string {
			if toks[pos] != "(" {
				s := toks[pos]
				pos++
				return s
			}
			depth := 0
			var parts []string
			for {
				t := toks[pos]
				pos++
				if t == "(" {
					depth++
				} else if t == ")" {
					depth--
				}
				parts = append(parts, t)
				if depth == 0 {
					break
				}
			}
			s := strings.Join(parts, " ")
			s = strings.ReplaceAll(s, "( ", "(")
			s = strings.ReplaceAll(s, " )", ")")
			return s
		}
		if kw != "declare-const" {
			if toks[pos] != "(" {
				continue
			}
			pos++
			for toks[pos] != ")" {
				if kw == "declare-fun" {
					args = append(args, readSort())
				} else {
					pos++ // (
					pos++ // name
					args = append(args, readSort())
					pos++ // )
				}
			}
			pos++
		}
		ret := readSort()
		w.SMTFuns[name] = smtSig{args, ret}
	}
}
