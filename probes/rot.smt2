; rotateRight preserves the lookup view (one-level unfolding, heap versions h0 -> h2, copy-on-write)
(declare-sort Ref 0) (declare-sort K 0) (declare-sort V 0)
(declare-datatypes ((OptV 0)) (((none) (some (the V)))))
(declare-fun lt (K K) Bool)
(assert (forall ((a K)) (not (lt a a))))
(assert (forall ((a K) (b K) (c K)) (=> (and (lt a b) (lt b c)) (lt a c))))
(assert (forall ((a K) (b K)) (or (lt a b) (= a b) (lt b a))))
; heap h0
(declare-fun key0 (Ref) K) (declare-fun left0 (Ref) Ref) (declare-fun right0 (Ref) Ref)
(declare-fun height0 (Ref) Int) (declare-fun val0 (Ref) V) (declare-fun pub (Ref) Bool)
(declare-fun look0 (Ref K) OptV)
; heap h2 (after the function body)
(declare-fun key2 (Ref) K) (declare-fun left2 (Ref) Ref) (declare-fun right2 (Ref) Ref)
(declare-fun height2 (Ref) Int) (declare-fun look2 (Ref K) OptV)
(declare-const node Ref) (declare-const l Ref) (declare-const n1 Ref) (declare-const l1 Ref)
; pre: node, l published inner nodes; l = left(node)
(assert (pub node)) (assert (pub l)) (assert (= l (left0 node)))
(assert (> (height0 node) 0)) (assert (> (height0 l) 0))
(assert (pub (left0 l))) (assert (pub (right0 l))) (assert (pub (right0 node)))
; wf fact used: key(l) < key(node)
(assert (lt (key0 l) (key0 node)))
; unfold-on-access definitions in h0 for node and l
(assert (forall ((k K)) (= (look0 node k) (ite (lt k (key0 node)) (look0 (left0 node) k) (look0 (right0 node) k)))))
(assert (forall ((k K)) (= (look0 l k) (ite (lt k (key0 l)) (look0 (left0 l) k) (look0 (right0 l) k)))))
; fresh copies
(assert (not (pub n1))) (assert (not (pub l1))) (assert (distinct n1 l1))
; effect of the body (symbolic execution result): fields of fresh nodes
(assert (= (key2 n1) (key0 node))) (assert (= (left2 n1) (right0 l))) (assert (= (right2 n1) (right0 node)))
(assert (= (key2 l1) (key0 l)))   (assert (= (left2 l1) (left0 l)))  (assert (= (right2 l1) n1))
(assert (> (height2 n1) 0)) (assert (> (height2 l1) 0))
; frame meta-lemma: published nodes keep their view
(assert (forall ((r Ref) (k K)) (! (=> (pub r) (= (look2 r k) (look0 r k))) :pattern ((look2 r k)))))
; unfold in h2 for the two fresh nodes
(assert (forall ((k K)) (= (look2 n1 k) (ite (lt k (key2 n1)) (look2 (left2 n1) k) (look2 (right2 n1) k)))))
(assert (forall ((k K)) (= (look2 l1 k) (ite (lt k (key2 l1)) (look2 (left2 l1) k) (look2 (right2 l1) k)))))
; negated goal
(declare-const kk K)
(assert (not (= (look2 l1 kk) (look0 node kk))))
(check-sat)
