#!/bin/sh
# Must-fail corpus: every mutant (a property-breaking edit of the real code, applied as a load
# overlay - the repository is not touched) has to make the named obligation fail.
# usage: selftest/run.sh [property]
cd "$(dirname "$0")/.."
fail=0; n=0
grep -v '^#' selftest/mutants.tsv | while IFS="$(printf '\t')" read -r prop file expr expect; do
  [ -z "$prop" ] && continue
  [ -n "$1" ] && [ "$1" != "$prop" ] && continue
  d=$(mktemp -d /tmp/mutXXXX)
  sed "$expr" /repo/$file > $d/m.go
  if cmp -s /repo/$file $d/m.go; then echo "STALE  $prop $file '$expr' (mutant does not change the file)"; rm -rf $d; continue; fi
  echo "{\"/repo/$file\":\"$d/m.go\"}" > $d/ov.json
  out=$(./bin/gocv -prop $prop -overlay $d/ov.json -no-evidence -expect-fail "$expect" 2>&1)
  if echo "$out" | grep -q "expected failure observed"; then echo "CAUGHT $prop $file '$expr' -> $(echo "$out" | grep 'expected failure observed' | sed 's/.*observed: //')"; else echo "MISSED $prop $file '$expr' (expected $expect)"; fi
  rm -rf $d
done
