package main

import (
	"fmt"
	"strings"

	"golang.org/x/tools/go/ssa"
)

// shortCallee: the method or function name without package / receiver.
func shortCallee(name string) string {
	if i := strings.LastIndex(name, ")."); i >= 0 {
		return name[i+2:]
	}
	if i := strings.LastIndex(name, "."); i >= 0 {
		return name[i+1:]
	}
	return name
}

// recordCall remembers the result of a call made by the function under proof so that contracts
// can refer to it: ret(Name), ret(Name, k) for the k-th call site of that name, called(Name).
func (u *Unit) recordCall(fr *Frame, st *State, c *ssa.CallCommon, res Val) {
	if fr.parent != nil {
		return
	}
	if _, ok := c.Value.(*ssa.Builtin); ok {
		return
	}
	name := shortCallee(u.calleeName(c))
	key := "callsite:" + name
	k := u.ordinals[key]
	u.ordinals[key] = k + 1
	if u.callRes == nil {
		u.callRes = map[string]Val{}
	}
	if k == 0 {
		u.callRes[name] = res
	}
	u.callRes[fmt.Sprintf("%s#%d", name, k)] = res
	if st.ghostCalled == nil {
		st.ghostCalled = map[string]Term{}
	}
	st.ghostCalled["called:"+name] = tTrue
	st.ghostCalled[fmt.Sprintf("called:%s#%d", name, k)] = tTrue
}

// evalRet implements ret(Name[, k]) / ret0(Name[, k]) / ret1(Name[, k]).
func (u *Unit) evalRet(e *SExpr, env *Env) Val {
	if len(e.Args) == 0 || e.Args[0].Kind != "id" {
		u.specFail("%s needs a callee name", e.Name)
	}
	key := e.Args[0].Name
	if len(e.Args) > 1 {
		key = fmt.Sprintf("%s#%s", key, e.Args[1].Name)
	}
	v, ok := u.callRes[key]
	if !ok {
		u.specFail("%s: the function never calls %s", e.Name, key)
	}
	switch e.Name {
	case "ret":
		if v.Tup != nil {
			return v.Tup[0]
		}
		return v
	default:
		idx := int(e.Name[3] - '0')
		if idx >= len(v.Tup) {
			if idx == 0 && v.Tup == nil {
				return v
			}
			u.specFail("%s: callee has %d results", e.Name, len(v.Tup))
		}
		return v.Tup[idx]
	}
}

// tryEvalBool evaluates a clause and reports false when it does not apply in this context
// (unknown identifier: a local of another function, a ret() of a call that is not made here).
func (u *Unit) tryEvalBool(e *SExpr, env *Env) (t Term, ok bool) {
	defer func() {
		if r := recover(); r != nil {
			if _, is := r.(specError); is {
				ok = false
				return
			}
			panic(r)
		}
	}()
	return u.evalBool(e, env), true
}
