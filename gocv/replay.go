package main

// tryReplay turns a counterexample into a Go test run against the real code.
func tryReplay(prop string, o *Obligation, u *Unit, vals map[string]string, replayDir string, w *World) (string, bool) {
	return "", false
}
