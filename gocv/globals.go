package main

import (
	"fmt"
	"go/ast"
	"go/constant"
	"go/token"
	"go/types"

	"golang.org/x/tools/go/ssa"
)

// GlobalFact describes a package-level variable whose initial value is a compile-time constant
// (or []byte of a constant string) and which is never written after initialisation.
type GlobalFact struct {
	Kind  string // "bytes" or "const"
	Str   string
	Val   constant.Value
	Immut bool
}

// computeGlobalFacts finds constant-initialised globals and checks syntactically that no function
// other than the package initialiser stores to them or takes their address.
func (w *World) computeGlobalFacts() {
	w.GlobalFacts = map[*ssa.Global]*GlobalFact{}
	for _, p := range w.Pkgs {
		sp := w.SSAPkgs[p.PkgPath]
		if sp == nil {
			continue
		}
		for _, f := range p.Syntax {
			for _, d := range f.Decls {
				gd, ok := d.(*ast.GenDecl)
				if !ok || gd.Tok != token.VAR {
					continue
				}
				for _, s := range gd.Specs {
					vs := s.(*ast.ValueSpec)
					if len(vs.Values) != len(vs.Names) {
						continue
					}
					for i, n := range vs.Names {
						g := sp.Var(n.Name)
						if g == nil {
							continue
						}
						e := vs.Values[i]
						if tv, ok := p.TypesInfo.Types[e]; ok && tv.Value != nil {
							w.GlobalFacts[g] = &GlobalFact{Kind: "const", Val: tv.Value}
							continue
						}
						// append(<constant []byte global>, []byte("lit")...)
						if call, ok := e.(*ast.CallExpr); ok && len(call.Args) == 2 && call.Ellipsis.IsValid() {
							if fid, ok := call.Fun.(*ast.Ident); ok && fid.Name == "append" {
								if base, ok := call.Args[0].(*ast.Ident); ok {
									if bg := sp.Var(base.Name); bg != nil {
										if bf := w.GlobalFacts[bg]; bf != nil && bf.Kind == "bytes" {
											if conv, ok := call.Args[1].(*ast.CallExpr); ok && len(conv.Args) == 1 {
												if av, ok := p.TypesInfo.Types[conv.Args[0]]; ok && av.Value != nil && av.Value.Kind() == constant.String {
													w.GlobalFacts[g] = &GlobalFact{Kind: "bytes", Str: bf.Str + constant.StringVal(av.Value)}
													continue
												}
											}
										}
									}
								}
							}
						}
						if call, ok := e.(*ast.CallExpr); ok && len(call.Args) == 1 {
							if tv, ok := p.TypesInfo.Types[call.Fun]; ok && tv.IsType() {
								if sl, ok := tv.Type.Underlying().(*types.Slice); ok {
									if b, ok := sl.Elem().Underlying().(*types.Basic); ok && b.Kind() == types.Uint8 {
										if av, ok := p.TypesInfo.Types[call.Args[0]]; ok && av.Value != nil && av.Value.Kind() == constant.String {
											w.GlobalFacts[g] = &GlobalFact{Kind: "bytes", Str: constant.StringVal(av.Value)}
										}
									}
								}
							}
						}
					}
				}
			}
		}
	}
	if len(w.GlobalFacts) == 0 {
		return
	}
	mutated := map[*ssa.Global]bool{}
	var scan func(fn *ssa.Function)
	scan = func(fn *ssa.Function) {
		isInit := fn.Name() == "init" && fn.Synthetic != ""
		for _, b := range fn.Blocks {
			for _, in := range b.Instrs {
				var ops [8]*ssa.Value
				for _, op := range in.Operands(ops[:0]) {
					g, ok := (*op).(*ssa.Global)
					if !ok {
						continue
					}
					if _, tracked := w.GlobalFacts[g]; !tracked {
						continue
					}
					switch i := in.(type) {
					case *ssa.UnOp:
						if i.Op == token.MUL {
							continue
						}
					case *ssa.Store:
						if i.Addr == *op && isInit {
							continue
						}
					}
					mutated[g] = true
				}
			}
		}
		for _, a := range fn.AnonFuncs {
			scan(a)
		}
	}
	for _, sp := range w.SSAPkgs {
		for _, m := range sp.Members {
			switch x := m.(type) {
			case *ssa.Function:
				scan(x)
			case *ssa.Type:
				for _, t := range []types.Type{x.Type(), types.NewPointer(x.Type())} {
					ms := w.Prog.MethodSets.MethodSet(t)
					for i := 0; i < ms.Len(); i++ {
						if fn := w.Prog.MethodValue(ms.At(i)); fn != nil && fn.Pkg == sp {
							scan(fn)
						}
					}
				}
			}
		}
	}
	for g, f := range w.GlobalFacts {
		f.Immut = !mutated[g]
	}
}

// globalConst returns the value of a constant global, if gocv knows it.
func (u *Unit) globalConst(st *State, g *ssa.Global) (Val, bool) {
	f := u.W.GlobalFacts[g]
	if f == nil || !f.Immut {
		return Val{}, false
	}
	elem := g.Type().(*types.Pointer).Elem()
	name := g.Pkg.Pkg.Path() + "." + g.Name()
	switch f.Kind {
	case "const":
		switch f.Val.Kind() {
		case constant.Int:
			if u.sortOf(elem) == "Int" {
				u.note("package-level variable " + name + " keeps its constant initial value (no store outside init in the loaded packages: checked syntactically)")
				return Val{T: bigLit(f.Val.ExactString()), Typ: elem}, true
			}
		case constant.Bool:
			u.note("package-level variable " + name + " keeps its constant initial value (no store outside init in the loaded packages: checked syntactically)")
			if constant.BoolVal(f.Val) {
				return Val{T: tTrue, Typ: elem}, true
			}
			return Val{T: tFalse, Typ: elem}, true
		case constant.String:
			if u.sortOf(elem) == "Bytes" {
				u.note("package-level variable " + name + " keeps its constant initial value (no store outside init in the loaded packages: checked syntactically)")
				return Val{T: u.strLit(constant.StringVal(f.Val)), Typ: elem}, true
			}
		}
	case "bytes":
		s := "gbytes_" + mangle(name)
		n := len(f.Str)
		u.declareOnce(s, fmt.Sprintf("(declare-const %s Slice)", s))
		u.declareOnce(s+"!", fmt.Sprintf("(assert (and (> (sarr %s) 0) (= (soff %s) 0) (= (slen %s) %d) (>= (scap %s) %d)))", s, s, s, n, s, n))
		t := Term{s, "Slice"}
		u.assume(tTrue, app("Bool", "<", sArr(t), st.alloc))
		if n <= 64 {
			_, h := u.memHeap(st, types.Typ[types.Uint8])
			row := sel(h, sArr(t))
			var cs []Term
			for i := 0; i < n; i++ {
				cs = append(cs, eq2(sel(row, intLit(int64(i))), intLit(int64(f.Str[i]))))
			}
			u.assume(tTrue, and(cs...))
		}
		u.note("[]byte variable " + name + " = []byte(" + fmt.Sprintf("%q", f.Str) + ") is never reassigned (checked syntactically) and its backing array is assumed never written")
		return Val{T: t, Typ: elem}, true
	}
	return Val{}, false
}
