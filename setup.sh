#!/bin/sh
# builds the verifier offline from files on disk only
set -e
cd "$(dirname "$0")"
export GOFLAGS=-mod=mod GOPROXY=off GOSUMDB=off GOTOOLCHAIN=local CGO_ENABLED=0
mkdir -p bin evidence replay
cd gocv
cp /repo/go.sum go.sum 2>/dev/null || true
go build -o ../bin/gocv .
