package main

import (
	"fmt"
	"go/constant"
	"go/types"
	"strings"
)

// Env is the evaluation context of a spec expression.
type Env struct {
	u      *Unit
	fr     *Frame
	st     *State
	old    *State
	vars   map[string]Val
	locals bool // resolve identifiers to local variables of fr (loop invariants, call-site assertions)
	pkg    string
	bound  map[string]string // quantified variables -> sort
	inOld  bool
}

func (e *Env) sub() *Env {
	n := *e
	n.bound = map[string]string{}
	for k, v := range e.bound {
		n.bound[k] = v
	}
	return &n
}

type specError struct{ msg string }

func boundSet(env *Env) map[string]bool {
	m := map[string]bool{}
	for k := range env.bound {
		m[k] = true
	}
	return m
}

func (u *Unit) specFail(format string, args ...interface{}) {
	panic(specError{fmt.Sprintf(format, args...)})
}

func (u *Unit) evalBool(e *SExpr, env *Env) Term {
	v := u.eval(e, env)
	if v.T.Sort != "Bool" {
		u.specFail("expected Bool in %q, got %s", e.String(), v.T.Sort)
	}
	return v.T
}

func (u *Unit) evalInt(e *SExpr, env *Env) Term {
	v := u.eval(e, env)
	if v.T.Sort != "Int" {
		u.specFail("expected Int in %q, got %s", e.String(), v.T.Sort)
	}
	return v.T
}

func (u *Unit) pkgScope(env *Env, name string) *types.Package {
	// the package the contract belongs to, or one of its imports by name
	var home *types.Package
	pkgPath := env.pkg
	if pkgPath == "" && env.fr != nil && env.fr.fn.Pkg != nil {
		pkgPath = env.fr.fn.Pkg.Pkg.Path()
	}
	if pkgPath == "" && u.Fn != nil && u.Fn.Pkg != nil {
		pkgPath = u.Fn.Pkg.Pkg.Path()
	}
	for _, p := range u.W.Pkgs {
		if p.PkgPath == pkgPath {
			home = p.Types
		}
	}
	if name == "" {
		return home
	}
	if home != nil {
		if home.Name() == name {
			return home
		}
		// prefer packages of the module under verification over third-party packages of the same name
		for _, imp := range home.Imports() {
			if imp.Name() == name && strings.HasPrefix(imp.Path(), u.W.Module) {
				return imp
			}
		}
		for _, imp := range home.Imports() {
			if imp.Name() == name {
				return imp
			}
		}
	}
	for _, p := range u.W.Pkgs {
		if p.Types.Name() == name {
			return p.Types
		}
		for _, imp := range p.Types.Imports() {
			if imp.Name() == name {
				return imp
			}
		}
	}
	return nil
}

func (u *Unit) objectVal(env *Env, obj types.Object) (Val, bool) {
	switch o := obj.(type) {
	case *types.Const:
		switch o.Val().Kind() {
		case constant.Int:
			return Val{T: bigLit(o.Val().ExactString()), Typ: o.Type()}, true
		case constant.Bool:
			if constant.BoolVal(o.Val()) {
				return Val{T: tTrue, Typ: o.Type()}, true
			}
			return Val{T: tFalse, Typ: o.Type()}, true
		case constant.String:
			return Val{T: u.strLit(constant.StringVal(o.Val())), Typ: o.Type()}, true
		}
	case *types.Var:
		if o.Pkg() != nil {
			if sp := u.W.Prog.Package(o.Pkg()); sp != nil {
				if g, ok := sp.Members[o.Name()]; ok {
					if gg, ok := g.(interface{ Type() types.Type }); ok {
						_ = gg
					}
				}
			}
			// global variable: read from the global heap
			name := "G:" + o.Pkg().Path() + "." + o.Name()
			if types.Identical(o.Type(), types.Universe.Lookup("error").Type()) {
				if sp := u.W.Prog.Package(o.Pkg()); sp != nil {
					if g := sp.Var(o.Name()); g != nil {
						return u.loadGlobal(env.st, g), true
					}
				}
				// package loaded from export data: same naming scheme
				n := "err_" + mangle(o.Pkg().Path()+"."+o.Name())
				if t, ok := u.globErr[name]; ok {
					return Val{T: t, Typ: o.Type()}, true
				}
				u.decls = append(u.decls, fmt.Sprintf("(declare-const %s Iface)", n))
				u.decls = append(u.decls, fmt.Sprintf("(assert (= (itag %s) %d))", n, 1000+len(u.globErr)))
				t := Term{n, "Iface"}
				u.globErr[name] = t
				return Val{T: t, Typ: o.Type()}, true
			}
			return Val{T: u.heap(env.st, name, u.sortOf(o.Type())), Typ: o.Type()}, true
		}
	}
	return Val{}, false
}

func (u *Unit) lookupIdent(name string, env *Env) Val {
	if s, ok := env.bound[name]; ok {
		return Val{T: Term{name, s}}
	}
	if env.fr != nil && env.fr.parent == nil && env.fr.fn != nil {
		// a captured variable of the closure under proof: its current content (captures are by reference)
		for _, fv := range env.fr.fn.FreeVars {
			if fv.Name() != name {
				continue
			}
			if _, isPtr := fv.Type().Underlying().(*types.Pointer); !isPtr {
				break
			}
			if pv, ok := env.fr.vals[fv]; ok {
				if l := u.pointerLoc(env.st, pv, fv.Type()); l.Kind != LOpaque {
					return u.load(env.st, l)
				}
			}
		}
	}
	if v, ok := env.vars[name]; ok {
		return v
	}
	switch name {
	case "true":
		return Val{T: tTrue}
	case "false":
		return Val{T: tFalse}
	case "nil":
		return Val{T: Term{"nil", "Nil"}}
	}
	if env.inOld && env.fr != nil {
		// inside old(): parameters denote their entry values, not the (mutable) local copies
		if v, ok := env.fr.params[name]; ok {
			return v
		}
	}
	if env.locals && env.fr != nil {
		if cs := env.fr.byName[name]; len(cs) > 0 {
			c := cs[len(cs)-1]
			if len(cs) > 1 {
				// several variables share the name (shadowing): take the innermost one whose
				// declaration dominates the program point the clause is attached to
				best, bestDepth := (*Cell)(nil), -1
				for _, cand := range cs {
					if cand.blk == nil || u.scopeBlk == nil || !(cand.blk == u.scopeBlk || cand.blk.Dominates(u.scopeBlk)) {
						continue
					}
					d := 0
					for b := cand.blk; b != nil; b = b.Idom() {
						d++
					}
					if d > bestDepth {
						best, bestDepth = cand, d
					}
				}
				if best != nil {
					c = best
				} else {
					for _, cand := range cs {
						if _, ok := env.st.cells[cand]; ok {
							c = cand
						}
					}
				}
			}
			return u.load(env.st, &Loc{Kind: LCell, Cell: c, Elem: c.Typ})
		}
		// an escaping local (captured by a closure, or its address taken): it lives in a box
		for k := len(env.fr.boxed) - 1; k >= 0; k-- {
			bl := env.fr.boxed[k]
			if bl.alloc.Comment != name {
				continue
			}
			if l := u.pointerLoc(env.st, Val{T: bl.ref}, bl.alloc.Type()); l.Kind != LOpaque {
				return u.load(env.st, l)
			}
		}
		if v, ok := env.fr.params[name]; ok {
			return v
		}
	}
	// SMT constant from a spec file
	if sig, ok := u.W.SMTFuns[name]; ok && len(sig.Args) == 0 {
		return Val{T: Term{name, sig.Ret}}
	}
	// package-level object
	if p := u.pkgScope(env, ""); p != nil {
		if obj := p.Scope().Lookup(name); obj != nil {
			if v, ok := u.objectVal(env, obj); ok {
				return v
			}
		}
	}
	u.specFail("unknown identifier %q", name)
	return Val{}
}

func (u *Unit) eval(e *SExpr, env *Env) Val {
	switch e.Kind {
	case "id":
		return u.lookupIdent(e.Name, env)
	case "int":
		return Val{T: bigLit(e.Name)}
	case "str":
		return Val{T: u.strLit(e.Name)}
	case "un":
		x := u.eval(e.Args[0], env)
		switch e.Name {
		case "!":
			return Val{T: not(x.T)}
		case "-":
			return Val{T: app("Int", "-", x.T)}
		case "*":
			if x.Loc != nil {
				return u.load(env.st, x.Loc)
			}
			if x.Typ == nil {
				u.specFail("deref of untyped value in %s", e.String())
			}
			return u.load(env.st, u.pointerLoc(env.st, x, x.Typ))
		}
	case "bin":
		return u.evalBin(e, env)
	case "ite":
		c := u.evalBool(e.Args[0], env)
		a, b := u.eval(e.Args[1], env), u.eval(e.Args[2], env)
		a, b = u.unifyNil(a, b)
		return Val{T: ite(c, a.T, b.T), Typ: a.Typ}
	case "quant":
		sub := env.sub()
		var binders []string
		for _, v := range e.Vars {
			sub.bound[v.Name] = v.Sort
			binders = append(binders, fmt.Sprintf("(%s %s)", v.Name, v.Sort))
		}
		body := u.evalBool(e.Args[0], sub)
		return Val{T: Term{fmt.Sprintf("(%s (%s) %s)", e.Name, strings.Join(binders, " "), body.S), "Bool"}}
	case "field":
		return u.evalField(e, env)
	case "index":
		x, i := u.eval(e.Args[0], env), u.eval(e.Args[1], env)
		return u.specIndex(x, i, env)
	case "slice":
		x := u.eval(e.Args[0], env)
		lo, hi := u.evalInt(e.Args[1], env), u.evalInt(e.Args[2], env)
		switch x.T.Sort {
		case "Bytes":
			return Val{T: app("Bytes", "bsub", x.T, lo, hi), Typ: x.Typ}
		case "Slice":
			return Val{T: mkSlice(sArr(x.T), app("Int", "+", sOff(x.T), lo), app("Int", "-", hi, lo), app("Int", "-", sCap(x.T), lo)), Typ: x.Typ}
		}
		u.specFail("cannot slice %s", x.T.Sort)
	case "call":
		return u.evalCall(e, env)
	}
	u.specFail("cannot evaluate %s", e.String())
	return Val{}
}

func (u *Unit) unifyNil(a, b Val) (Val, Val) {
	if a.T.Sort == "Nil" && b.T.Sort != "Nil" {
		a = Val{T: u.nilOf(b), Typ: b.Typ}
	}
	if b.T.Sort == "Nil" && a.T.Sort != "Nil" {
		b = Val{T: u.nilOf(a), Typ: a.Typ}
	}
	return a, b
}

func (u *Unit) nilOf(v Val) Term {
	if v.Loc != nil {
		return intLit(0)
	}
	z := u.zeroOfSort(v.T.Sort)
	if z.S == "" {
		u.specFail("nil of sort %s", v.T.Sort)
	}
	return z
}

func (u *Unit) evalBin(e *SExpr, env *Env) Val {
	op := e.Name
	switch op {
	case "&&":
		return Val{T: and(u.evalBool(e.Args[0], env), u.evalBool(e.Args[1], env))}
	case "||":
		return Val{T: or(u.evalBool(e.Args[0], env), u.evalBool(e.Args[1], env))}
	case "==>":
		return Val{T: implies(u.evalBool(e.Args[0], env), u.evalBool(e.Args[1], env))}
	case "<==>":
		return Val{T: app("Bool", "=", u.evalBool(e.Args[0], env), u.evalBool(e.Args[1], env))}
	}
	a, b := u.eval(e.Args[0], env), u.eval(e.Args[1], env)
	a, b = u.unifyNil(a, b)
	switch op {
	case "==", "!=":
		var t Term
		if a.Loc != nil || b.Loc != nil {
			if a.Loc != nil && b.Loc != nil {
				if sameLoc(a.Loc, b.Loc) {
					t = tTrue
				} else {
					u.specFail("comparison of local addresses")
				}
			} else if a.Loc != nil {
				t = u.locEqTerm(a, b.T)
			} else {
				t = u.locEqTerm(b, a.T)
			}
		} else if a.T.Sort == "Slice" && (b.T.S == "nilslice" || a.T.S == "nilslice") {
			x := a.T
			if a.T.S == "nilslice" {
				x = b.T
			}
			t = eq(sArr(x), intLit(0))
		} else {
			if a.T.Sort != b.T.Sort {
				u.specFail("comparison of %s and %s in %s", a.T.Sort, b.T.Sort, e.String())
			}
			t = eq(a.T, b.T)
		}
		if op == "!=" {
			t = not(t)
		}
		return Val{T: t}
	case "<", "<=", ">", ">=":
		if a.T.Sort == "Bytes" {
			switch op {
			case "<":
				return Val{T: app("Bool", "blexlt", a.T, b.T)}
			case "<=":
				return Val{T: app("Bool", "blexle", a.T, b.T)}
			case ">":
				return Val{T: app("Bool", "blexlt", b.T, a.T)}
			default:
				return Val{T: app("Bool", "blexle", b.T, a.T)}
			}
		}
		if a.T.Sort != "Int" || b.T.Sort != "Int" {
			u.specFail("ordering on %s/%s in %s", a.T.Sort, b.T.Sort, e.String())
		}
		return Val{T: app("Bool", op, a.T, b.T)}
	case "+":
		if a.T.Sort == "Bytes" {
			return Val{T: app("Bytes", "bcat", a.T, b.T)}
		}
		return Val{T: app("Int", "+", a.T, b.T)}
	case "-", "*":
		return Val{T: app("Int", op, a.T, b.T)}
	case "/":
		return Val{T: app("Int", "div", a.T, b.T)}
	case "%":
		return Val{T: app("Int", "mod", a.T, b.T)}
	}
	u.specFail("operator %s", op)
	return Val{}
}

func (u *Unit) specIndex(x, i Val, env *Env) Val {
	switch {
	case x.T.Sort == "Bytes":
		return Val{T: app("Int", "bat", x.T, i.T)}
	case x.T.Sort == "Slice":
		if x.Typ == nil {
			u.specFail("index of untyped slice")
		}
		elem := x.Typ.Underlying().(*types.Slice).Elem()
		_, h := u.memHeap(env.st, elem)
		return Val{T: sel(sel(h, sArr(x.T)), app("Int", "+", sOff(x.T), i.T)), Typ: elem}
	case strings.HasPrefix(x.T.Sort, "(Array "):
		var et types.Type
		if x.Typ != nil {
			if at, ok := x.Typ.Underlying().(*types.Array); ok {
				et = at.Elem()
			}
		}
		return Val{T: sel(x.T, u.termOf(i)), Typ: et}
	case x.T.Sort == "Int" && x.Typ != nil:
		if mt, ok := x.Typ.Underlying().(*types.Map); ok {
			_, dh, _, vh := u.mapHeaps(env.st, mt)
			mv := sel(sel(vh, x.T), u.termOf(i))
			if len(env.bound) == 0 {
				// heap typing invariant for a stored map value (as the executor assumes at every lookup):
				// a reference held by the map in this state points to an object allocated in this state
				switch mt.Elem().Underlying().(type) {
				case *types.Slice, *types.Pointer, *types.Map, *types.Interface:
					u.assume(tTrue, implies(sel(sel(dh, x.T), u.termOf(i)), u.typeInv(env.st, mv, mt.Elem())))
				}
			}
			return Val{T: mv, Typ: mt.Elem()}
		}
	}
	u.specFail("cannot index %s", x.T.Sort)
	return Val{}
}

func (u *Unit) ghostHeapSort(g GhostField) string {
	key := "Int"
	if strings.HasPrefix(g.Sort, "iface:") {
		return arraySort("Iface", g.Sort[6:])
	}
	if g.Type == "*" {
		return arraySort("Iface", g.Sort) // wildcard ghost fields are keyed by the (boxed) object
	}
	return arraySort(key, g.Sort)
}

func namedOf(t types.Type) (string, bool) {
	t = types.Unalias(t)
	if p, ok := t.Underlying().(*types.Pointer); ok && t == types.Type(p) {
		t = types.Unalias(p.Elem())
	} else if p, ok := t.(*types.Pointer); ok {
		t = types.Unalias(p.Elem())
	}
	if n, ok := t.(*types.Named); ok && n.Obj().Pkg() != nil {
		return n.Obj().Pkg().Path() + "." + n.Obj().Name(), true
	}
	return "", false
}

func (u *Unit) evalField(e *SExpr, env *Env) Val {
	// package-qualified object?
	if e.Args[0].Kind == "id" {
		if _, isVar := env.vars[e.Args[0].Name]; !isVar {
			if _, isBound := env.bound[e.Args[0].Name]; !isBound {
				local := false
				if env.locals && env.fr != nil {
					if len(env.fr.byName[e.Args[0].Name]) > 0 {
						local = true
					}
					if _, ok := env.fr.params[e.Args[0].Name]; ok {
						local = true
					}
				}
				if !local {
					if p := u.pkgScope(env, e.Args[0].Name); p != nil {
						if obj := p.Scope().Lookup(e.Name); obj != nil {
							if v, ok := u.objectVal(env, obj); ok {
								return v
							}
						}
						u.specFail("unknown object %s.%s", e.Args[0].Name, e.Name)
					}
				}
			}
		}
	}
	x := u.eval(e.Args[0], env)
	// wildcard ghost field (abstract state of an object behind an interface, e.g. the map a KV
	// store denotes): keyed by the interface value; concrete pointers are boxed first so that the
	// same object has the same abstract state through every interface type
	if g, ok := u.W.Ghosts["*."+e.Name]; ok {
		h, key := u.wildGhost(env.st, g, x)
		return Val{T: sel(h, key)}
	}
	// ghost field?
	if x.Typ != nil {
		if tn, ok := namedOf(x.Typ); ok {
			if g, ok := u.W.Ghosts[tn+"."+e.Name]; ok {
				h := u.heap(env.st, "GH:"+tn+"."+e.Name, u.ghostHeapSort(g))
				return Val{T: sel(h, u.termOf(x))}
			}
		}
	}
	if x.Typ == nil {
		u.specFail("field %s of untyped value in %s", e.Name, e.String())
	}
	// pointer to struct or struct value
	t := types.Unalias(x.Typ)
	if pt, ok := t.Underlying().(*types.Pointer); ok {
		sst, key, ok := u.transparentStruct(pt.Elem())
		if !ok {
			u.specFail("field %s of opaque type %s", e.Name, pt.Elem())
		}
		idx, ft := findField(sst, e.Name)
		if idx < 0 {
			u.specFail("no field %s in %s", e.Name, pt.Elem())
		}
		if x.Loc != nil {
			pv := u.load(env.st, x.Loc)
			return Val{T: u.structGet(pv.T, sst, key, idx), Typ: ft}
		}
		h := u.heap(env.st, u.fieldHeapName(key, sst, idx), arraySort("Int", u.sortOf(ft)))
		v := sel(h, x.T)
		if len(env.bound) == 0 {
			// heap typing invariant for the value read (references point to allocated objects,
			// integers are in range): the same assumption the executor makes at every load
			switch ft.Underlying().(type) {
			case *types.Slice, *types.Pointer, *types.Map, *types.Interface:
				u.assume(tTrue, u.typeInv(env.st, v, ft))
			}
		}
		return Val{T: v, Typ: ft}
	}
	if sst, key, ok := u.transparentStruct(t); ok {
		idx, ft := findField(sst, e.Name)
		if idx < 0 {
			u.specFail("no field %s in %s", e.Name, t)
		}
		return Val{T: u.structGet(x.T, sst, key, idx), Typ: ft}
	}
	u.specFail("field %s of %s", e.Name, x.Typ)
	return Val{}
}

func findField(st *types.Struct, name string) (int, types.Type) {
	for i := 0; i < st.NumFields(); i++ {
		if st.Field(i).Name() == name {
			return i, st.Field(i).Type()
		}
	}
	return -1, nil
}

func (u *Unit) evalCall(e *SExpr, env *Env) Val {
	switch e.Name {
	case "old":
		if env.old == nil {
			u.specFail("old() not available here")
		}
		sub := *env
		sub.st = env.old
		sub.inOld = true
		return u.eval(e.Args[0], &sub)
	case "len":
		x := u.eval(e.Args[0], env)
		switch x.T.Sort {
		case "Bytes":
			return Val{T: app("Int", "blen", x.T)}
		case "Slice":
			return Val{T: sLen(x.T)}
		}
		if x.Typ != nil {
			if at, ok := x.Typ.Underlying().(*types.Array); ok {
				return Val{T: intLit(at.Len())}
			}
		}
		if x.Typ != nil {
			if mt, ok := x.Typ.Underlying().(*types.Map); ok {
				f := "maplen_" + mangle(u.typeKey(mt))
				_, dh, _, _ := u.mapHeaps(env.st, mt)
				u.declareOnce(f, fmt.Sprintf("(declare-fun %s (%s) Int)", f, arrayElem(dh.Sort)))
				return Val{T: ite(eq(x.T, intLit(0)), intLit(0), app("Int", f, sel(dh, x.T)))}
			}
		}
		u.specFail("len of %s", x.T.Sort)
	case "cap":
		x := u.eval(e.Args[0], env)
		return Val{T: sCap(x.T)}
	case "bytes", "string":
		x := u.eval(e.Args[0], env)
		switch x.T.Sort {
		case "Bytes":
			return x
		case "Slice":
			u.boundNow = boundSet(env)
			return Val{T: u.bytesOf(env.st, x.T)}
		}
		u.specFail("bytes() of %s", x.T.Sort)
	case "isnil":
		x := u.eval(e.Args[0], env)
		if x.T.Sort == "Slice" {
			return Val{T: eq(sArr(x.T), intLit(0))}
		}
		return Val{T: eq(x.T, u.nilOf(x))}
	case "called":
		// call-history flag set by calls to functions whose name contains the argument
		name := e.Args[0].Name
		var ts []Term
		if len(e.Args) > 1 {
			// called(Name, k): the k-th call site (source order) of Name
			if t, ok := env.st.ghostCalled[fmt.Sprintf("called:%s#%s", name, e.Args[1].Name)]; ok {
				return Val{T: t}
			}
			return Val{T: tFalse}
		}
		for k, t := range env.st.ghostCalled {
			if strings.Contains(k, name) {
				ts = append(ts, t)
			}
		}
		return Val{T: or(ts...)}
	case "ref":
		x := u.eval(e.Args[0], env)
		return Val{T: u.termOf(x)}
	case "ret", "ret0", "ret1", "ret2":
		return u.evalRet(e, env)
	case "asstring", "aserror":
		// the string / error an interface value holds (the inverse of boxing)
		x := u.eval(e.Args[0], env)
		if x.T.Sort != "Iface" {
			u.specFail("%s needs an interface value", e.Name)
		}
		if e.Name == "aserror" {
			return Val{T: x.T, Typ: types.Universe.Lookup("error").Type()}
		}
		f, _ := u.ifaceTag(types.Typ[types.String], "Bytes")
		return Val{T: app("Bytes", "un"+f, x.T), Typ: types.Typ[types.String]}
	case "visited":
		// visited(k): key k has already been produced by the (single) map range in progress
		k := u.eval(e.Args[0], env)
		var name string
		n := 0
		for h := range env.st.heaps {
			if strings.HasPrefix(h, "RV:") {
				name = h
				n++
			}
		}
		if n != 1 {
			u.specFail("visited(): %d map iterations in scope (need exactly one)", n)
		}
		return Val{T: sel(env.st.heaps[name], u.termOf(k))}
	case "store":
		a, k, v := u.eval(e.Args[0], env), u.eval(e.Args[1], env), u.eval(e.Args[2], env)
		if !strings.HasPrefix(a.T.Sort, "(Array ") {
			u.specFail("store() needs an array")
		}
		return Val{T: sto(a.T, u.termOf(k), u.termOf(v))}
	case "sarr", "soff":
		// sarr(s) / soff(s): backing array (a reference) and offset of a slice - for separation conditions
		x := u.eval(e.Args[0], env)
		if x.T.Sort != "Slice" {
			u.specFail("%s needs a slice", e.Name)
		}
		if e.Name == "sarr" {
			return Val{T: sArr(x.T)}
		}
		return Val{T: sOff(x.T)}
	case "atentry":
		// atentry(e): the value e had when the (most recently entered) loop was entered
		if u.curLoopPre == nil {
			u.specFail("atentry() outside a loop clause")
		}
		sub := *env
		sub.st = u.curLoopPre
		return u.eval(e.Args[0], &sub)
	case "fcall":
		// fcall(Name, args...): the value a functional callee (trusted, `opt functional`) returns for these
		// arguments in the current heap; a []byte result is given as Bytes
		want := e.Args[0].Name
		var full string
		var fct *Contract
		for n, c := range u.W.Contracts {
			if _, ok := c.Opts["functional"]; ok && (shortCallee(n) == want || strings.HasSuffix(n, want)) {
				if full == "" || n < full {
					full, fct = n, c
				}
			}
		}
		if fct == nil {
			u.specFail("fcall: no functional contract for %s", want)
		}
		var args []Val
		for _, a := range e.Args[1:] {
			args = append(args, u.eval(a, env))
		}
		rs := "Int"
		if fn := u.lookupFuncByName(full); fn != nil {
			if res := fn.Signature.Results(); res.Len() == 1 {
				rs = u.sortOf(res.At(0).Type())
				if sl, ok := res.At(0).Type().Underlying().(*types.Slice); ok && u.typeKey(sl.Elem()) == "uint8" {
					rs = "Bytes"
				}
			}
		}
		t, ok := u.functionalApp(env.st, full, args, rs)
		if !ok {
			u.specFail("fcall: argument cannot be represented")
		}
		return Val{T: t}
	case "sdata":
		// sdata(s): the backing array of slice s as an SMT array (index = soff(s) + position)
		x := u.eval(e.Args[0], env)
		if x.T.Sort != "Slice" || x.Typ == nil {
			u.specFail("sdata needs a typed slice")
		}
		sl, ok := x.Typ.Underlying().(*types.Slice)
		if !ok {
			u.specFail("sdata needs a slice")
		}
		_, h := u.memHeap(env.st, sl.Elem())
		return Val{T: sel(h, sArr(x.T))}
	case "ptr":
		// ptr(r, pkg.T): the reference r (an Int, e.g. a quantified variable) seen as a *pkg.T
		x := u.eval(e.Args[0], env)
		if x.T.Sort != "Int" {
			u.specFail("ptr needs a reference")
		}
		return Val{T: x.T, Typ: u.specPointerType(e.Args[1], env)}
	case "cast", "istype":
		// cast(x, pkg.T) / istype(x, pkg.T): the interface value x holds a *pkg.T
		x := u.eval(e.Args[0], env)
		if x.T.Sort != "Iface" {
			u.specFail("%s needs an interface value", e.Name)
		}
		pt := u.specPointerType(e.Args[1], env)
		f, tag := u.ifaceTag(pt, "Int")
		if e.Name == "istype" {
			return Val{T: eq(app("Int", "itag", x.T), intLit(int64(tag)))}
		}
		return Val{T: app("Int", "un"+f, x.T), Typ: pt}
	case "fresh":
		// fresh(p): p was allocated after the state old() refers to
		x := u.eval(e.Args[0], env)
		if env.old == nil {
			u.specFail("fresh() not available here")
		}
		t := u.termOf(x)
		if t.Sort == "Iface" {
			t = app("Int", "irefof", t)
		}
		if t.Sort == "Slice" {
			t = sArr(t) // a fresh slice: its backing array was allocated after the old state
		}
		if t.Sort != "Int" {
			u.specFail("fresh() needs a pointer, an interface or a slice")
		}
		return Val{T: and(not(eq(t, intLit(0))), app("Bool", ">=", t, env.old.alloc))}
	case "unbox":
		x := u.eval(e.Args[0], env)
		if x.Boxed == nil {
			u.specFail("unbox: the interface value was not made from a concrete value in this function")
		}
		return *x.Boxed
	case "fieldsEqual", "fieldsEqualExcept":
		return u.evalFieldsEqual(e, env)
	case "has":
		// has(m, k): k is a key of map m
		m, k := u.eval(e.Args[0], env), u.eval(e.Args[1], env)
		if m.Typ == nil {
			u.specFail("has() of untyped map")
		}
		mt, ok := m.Typ.Underlying().(*types.Map)
		if !ok {
			u.specFail("has() of %s", m.Typ)
		}
		_, dh, _, _ := u.mapHeaps(env.st, mt)
		return Val{T: and(not(eq(m.T, intLit(0))), sel(sel(dh, m.T), u.termOf(k)))}
	case "othermaps":
		// othermaps(m): every map of m's type other than m has the content it had at entry
		m := u.eval(e.Args[0], env)
		if m.Typ == nil {
			u.specFail("othermaps() of untyped map")
		}
		mt, ok := m.Typ.Underlying().(*types.Map)
		if !ok {
			u.specFail("othermaps() of %s", m.Typ)
		}
		_, dh, _, vh := u.mapHeaps(env.st, mt)
		_, dh0, _, vh0 := u.mapHeaps(env.old, mt)
		r := Term{"omr", "Int"}
		return Val{T: Term{fmt.Sprintf("(forall ((omr Int)) (=> (not (= omr %s)) (and (= %s %s) (= %s %s))))", m.T.S,
			sel(dh, r).S, sel(dh0, r).S, sel(vh, r).S, sel(vh0, r).S), "Bool"}}
	case "typeis":
		// typeis(x, "pkg/path.T") : dynamic type test on an interface value
		x := u.eval(e.Args[0], env)
		want := e.Args[1].Name
		for key, tag := range u.boxFns {
			if strings.HasPrefix(key, want+"#") {
				return Val{T: eq(app("Int", "itag", x.T), intLit(int64(tag)))}
			}
		}
		return Val{T: tFalse}
	}
	// SMT function from the prelude or a spec file
	if sig, ok := u.W.SMTFuns[e.Name]; ok {
		if len(sig.Args) != len(e.Args) {
			u.specFail("%s expects %d arguments", e.Name, len(sig.Args))
		}
		var args []Term
		for i, a := range e.Args {
			v := u.eval(a, env)
			t := u.termOf(v)
			if t.Sort == "Nil" {
				t = u.zeroOfSort(sig.Args[i])
			}
			if t.Sort == "Slice" && sig.Args[i] == "Bytes" {
				u.boundNow = boundSet(env)
				t = u.bytesOf(env.st, t)
			}
			if t.Sort != sig.Args[i] {
				u.specFail("argument %d of %s: have %s want %s", i, e.Name, t.Sort, sig.Args[i])
			}
			args = append(args, t)
		}
		return Val{T: app(sig.Ret, e.Name, args...)}
	}
	u.specFail("unknown spec function %s", e.Name)
	return Val{}
}
