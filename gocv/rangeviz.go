package main

import (
	"fmt"
	"go/types"

	"golang.org/x/tools/go/ssa"
)

// Range over a map: keys are visited in an arbitrary order, each key of the map exactly once
// (the map is assumed not to gain or lose keys while it is being ranged over). The set of keys
// already visited is ghost state of the loop: spec builtin visited(k).

func rangeHeapName(r *ssa.Range) string {
	idx := 0
	for k, in := range r.Block().Instrs {
		if in == ssa.Instruction(r) {
			idx = k
		}
	}
	return fmt.Sprintf("RV:%s.%d.%d", r.Parent().Name(), r.Block().Index, idx)
}

func (u *Unit) initRange(st *State, r *ssa.Range) {
	mt, ok := r.X.Type().Underlying().(*types.Map)
	if !ok {
		return
	}
	name := rangeHeapName(r)
	sort := arraySort(u.sortOf(mt.Key()), "Bool")
	u.heap(st, name, sort)
	st.heaps[name] = constArray(sort, tFalse)
}

// nextMapKey implements one step of the iteration.
func (u *Unit) nextMapKey(st *State, r *ssa.Range, m Term, mt *types.Map) (ok Term, k Val) {
	name := rangeHeapName(r)
	sort := arraySort(u.sortOf(mt.Key()), "Bool")
	vis := u.heap(st, name, sort)
	_, dh, _, _ := u.mapHeaps(st, mt)
	dom := sel(dh, m)
	ok = u.fresh("rangeok", "Bool")
	k = u.freshVal(st, "rangekey", mt.Key())
	inMap := and(not(eq(m, intLit(0))), sel(dom, k.T))
	u.assume(tTrue, implies(ok, and(inMap, not(sel(vis, k.T)))))
	ks := u.sortOf(mt.Key())
	// exhausted: every key of the map has been visited
	u.assume(tTrue, implies(not(ok), Term{fmt.Sprintf("(forall ((rk %s)) (! (=> %s %s) :pattern (%s)))", ks,
		and(not(eq(m, intLit(0))), sel(dom, Term{"rk", ks})).S, sel(vis, Term{"rk", ks}).S, patternOf(sel(dom, Term{"rk", ks}))), "Bool"}))
	st.heaps[name] = u.def(ite(ok, sto(vis, k.T, tTrue), vis))
	return ok, k
}

func patternOf(t Term) string {
	if len(t.S) > 0 && t.S[0] == '(' {
		return t.S
	}
	return "(select " + t.S + " rk)"
}
