#!/bin/sh
# usage: ./replay.sh <property id> <replay file>
# A replay file is either a Go test (run against the real code through go test -overlay) or the
# text record of an obligation that failed without a concrete input.
id="$1"; f="$2"
case "$f" in
  *_test.go)
    dir=$(dirname "$f"); ov="$dir/$(basename "$f" .go).overlay.json"
    pkg=$(sed -n 's/^\/\/ replay-package: //p' "$f")
    name=$(sed -n 's/^\/\/ replay-test: //p' "$f")
    cd /repo && exec go test -overlay "$ov" -vet=off -count=1 -timeout 60s -run "^${name}\$" "$pkg"
    ;;
  *) cat "$f"; exit 1;;
esac
