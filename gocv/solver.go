package main

import (
	"bytes"
	"context"
	"fmt"
	"os"
	"os/exec"
	"path/filepath"
	"strings"
	"sync"
	"time"
)

// SolverResult is the outcome of racing the back ends on one query.
type SolverResult struct {
	Status   string // "unsat", "sat", "unknown"
	Solver   string // deciding back end
	Seconds  float64
	Output   string            // output of the deciding back end (model for sat)
	All      map[string]string // status per back end that answered
	AllTimes map[string]float64
}

type backend struct {
	name string
	argv func(file string, timeoutS int) []string
}

var backends = []backend{
	{"z3-new-5.1.0", func(f string, t int) []string { return []string{"z3-new", fmt.Sprintf("-T:%d", t), f} }},
	{"z3-4.8.12", func(f string, t int) []string { return []string{"z3", fmt.Sprintf("-T:%d", t), f} }},
	{"cvc5-1.0.3", func(f string, t int) []string {
		return []string{"cvc5", fmt.Sprintf("--tlimit=%d", t*1000), "--produce-models", f}
	}},
}

var solverSem = make(chan struct{}, 14)

// runQuery races all back ends on the query text. waitAll makes it collect every answer
// (thorough tier: answers must not contradict each other).
func runQuery(dir, name, query string, timeoutS int, waitAll bool) SolverResult {
	file := filepath.Join(dir, sanitize(name)+".smt2")
	if err := os.WriteFile(file, []byte(query), 0o644); err != nil {
		return SolverResult{Status: "unknown", Output: err.Error()}
	}
	type ans struct {
		name, status, out string
		secs             float64
	}
	ctx, cancel := context.WithCancel(context.Background())
	defer cancel()
	ch := make(chan ans, len(backends))
	var wg sync.WaitGroup
	for _, b := range backends {
		wg.Add(1)
		go func(b backend) {
			defer wg.Done()
			solverSem <- struct{}{}
			defer func() { <-solverSem }()
			if ctx.Err() != nil {
				ch <- ans{b.name, "cancelled", "", 0}
				return
			}
			argv := b.argv(file, timeoutS)
			c, ccancel := context.WithTimeout(ctx, time.Duration(timeoutS+2)*time.Second)
			defer ccancel()
			cmd := exec.CommandContext(c, argv[0], argv[1:]...)
			var out bytes.Buffer
			cmd.Stdout = &out
			cmd.Stderr = &out
			t0 := time.Now()
			_ = cmd.Run()
			secs := time.Since(t0).Seconds()
			s := out.String()
			// z3 prints pattern warnings before the verdict: drop them
			var kept []string
			for _, ln := range strings.Split(s, "\n") {
				if strings.HasPrefix(strings.TrimSpace(ln), "WARNING") {
					continue
				}
				kept = append(kept, ln)
			}
			s = strings.Join(kept, "\n")
			first := strings.TrimSpace(strings.SplitN(s, "\n", 2)[0])
			st := "unknown"
			switch first {
			case "unsat", "sat":
				st = first
			case "timeout":
				st = "timeout"
			default:
				if strings.HasPrefix(first, "(error") {
					st = "error"
				}
			}
			ch <- ans{b.name, st, s, secs}
		}(b)
	}
	go func() { wg.Wait(); close(ch) }()
	res := SolverResult{Status: "unknown", All: map[string]string{}, AllTimes: map[string]float64{}}
	var unknownOut string
	for a := range ch {
		if a.status == "cancelled" {
			continue
		}
		res.All[a.name] = a.status
		res.AllTimes[a.name] = a.secs
		if (a.status == "unsat" || a.status == "sat") && res.Status == "unknown" {
			res.Status, res.Solver, res.Seconds, res.Output = a.status, a.name, a.secs, a.out
			if !waitAll {
				cancel()
			}
		} else if a.status != "unsat" && a.status != "sat" {
			unknownOut += a.name + ": " + firstLines(a.out, 3) + "\n"
		}
	}
	if res.Status == "unknown" {
		res.Output = unknownOut
		// every back end rejected the text: the query is malformed (a defect of the generator)
		nerr := 0
		for _, st := range res.All {
			if st == "error" {
				nerr++
			}
		}
		if nerr > 0 && nerr == len(res.All) {
			res.Status = "error"
		}
	}
	return res
}

func firstLines(s string, n int) string {
	ls := strings.Split(s, "\n")
	if len(ls) > n {
		ls = ls[:n]
	}
	return strings.Join(ls, "\n")
}

func sanitize(s string) string {
	var b strings.Builder
	for _, r := range s {
		switch {
		case r >= 'a' && r <= 'z', r >= 'A' && r <= 'Z', r >= '0' && r <= '9', r == '.', r == '_', r == '-':
			b.WriteRune(r)
		default:
			b.WriteRune('_')
		}
	}
	s = b.String()
	if len(s) > 150 {
		s = s[:150]
	}
	return s
}

// parseValues parses the answer of (get-value (...)) into name -> value text.
func parseValues(out string) map[string]string {
	m := map[string]string{}
	i := strings.Index(out, "\n")
	if i < 0 {
		return m
	}
	toks := tokenize(out[i+1:])
	// expect ( (name value) (name value) ... ) possibly several such lists
	pos := 0
	var parse func() string
	parse = func() string {
		if pos >= len(toks) {
			return ""
		}
		t := toks[pos]
		pos++
		if t != "(" {
			return t
		}
		parts := []string{}
		for pos < len(toks) && toks[pos] != ")" {
			parts = append(parts, parse())
		}
		pos++
		return "(" + strings.Join(parts, " ") + ")"
	}
	for pos < len(toks) {
		if toks[pos] != "(" {
			pos++
			continue
		}
		pos++ // outer (
		for pos < len(toks) && toks[pos] == "(" {
			pos++
			name := parse()
			val := parse()
			if pos < len(toks) && toks[pos] == ")" {
				pos++
			}
			m[name] = val
		}
		if pos < len(toks) && toks[pos] == ")" {
			pos++
		}
	}
	return m
}

func tokenize(s string) []string {
	var toks []string
	i := 0
	for i < len(s) {
		c := s[i]
		switch {
		case c == '(' || c == ')':
			toks = append(toks, string(c))
			i++
		case c == ' ' || c == '\n' || c == '\t' || c == '\r':
			i++
		case c == '"':
			j := i + 1
			for j < len(s) && s[j] != '"' {
				j++
			}
			toks = append(toks, s[i:min(j+1, len(s))])
			i = j + 1
		case c == '|':
			j := i + 1
			for j < len(s) && s[j] != '|' {
				j++
			}
			toks = append(toks, s[i:min(j+1, len(s))])
			i = j + 1
		default:
			j := i
			for j < len(s) && !strings.ContainsRune("() \n\t\r", rune(s[j])) {
				j++
			}
			toks = append(toks, s[i:j])
			i = j
		}
	}
	return toks
}

// smtIntValue turns "5" or "(- 5)" into a Go integer text.
func smtIntValue(v string) (string, bool) {
	v = strings.TrimSpace(v)
	if strings.HasPrefix(v, "(- ") && strings.HasSuffix(v, ")") {
		return "-" + strings.TrimSpace(v[3:len(v)-1]), true
	}
	for _, r := range v {
		if r < '0' || r > '9' {
			return "", false
		}
	}
	return v, v != ""
}
