package main

import (
	"go/types"
	"strings"

	"golang.org/x/tools/go/ssa"
)

// protoGetter models a generated protobuf getter whose body is not loaded:
//   func (x *T) GetF() FT { if x != nil { return x.F }; return zero }
// recognised by shape (method Get<F> on *T, T has a field F of the result type, no parameters).
func (u *Unit) protoGetter(st *State, c *ssa.CallCommon, args []Val, resT types.Type) (Val, bool) {
	fn := c.StaticCallee()
	if fn == nil || len(fn.Blocks) != 0 || !strings.HasPrefix(fn.Name(), "Get") || len(args) != 1 {
		return Val{}, false
	}
	recv := fn.Signature.Recv()
	if recv == nil || fn.Signature.Params().Len() != 0 || fn.Signature.Results().Len() != 1 {
		return Val{}, false
	}
	pt, ok := recv.Type().Underlying().(*types.Pointer)
	if !ok {
		return Val{}, false
	}
	sst, key, ok := u.transparentStruct(pt.Elem())
	if !ok {
		return Val{}, false
	}
	idx, ft := findField(sst, fn.Name()[3:])
	if idx < 0 || !types.Identical(ft, fn.Signature.Results().At(0).Type()) {
		return Val{}, false
	}
	x := args[0]
	if x.Loc != nil {
		return Val{}, false
	}
	h := u.heap(st, u.fieldHeapName(key, sst, idx), arraySort("Int", u.sortOf(ft)))
	v := u.def(ite(eq(x.T, intLit(0)), u.zeroOf(ft), sel(h, x.T)))
	u.assume(tTrue, u.typeInv(st, v, ft))
	u.note("protobuf getters without loaded bodies are modelled by their generated shape (nil-safe field read)")
	return Val{T: v, Typ: resT}, true
}

func (u *Unit) isProtoGetter(c *ssa.CallCommon) bool {
	fn := c.StaticCallee()
	if fn == nil || len(fn.Blocks) != 0 || !strings.HasPrefix(fn.Name(), "Get") {
		return false
	}
	recv := fn.Signature.Recv()
	if recv == nil || fn.Signature.Params().Len() != 0 || fn.Signature.Results().Len() != 1 {
		return false
	}
	pt, ok := recv.Type().Underlying().(*types.Pointer)
	if !ok {
		return false
	}
	sst, _, ok := u.transparentStruct(pt.Elem())
	if !ok {
		return false
	}
	idx, ft := findField(sst, fn.Name()[3:])
	return idx >= 0 && types.Identical(ft, fn.Signature.Results().At(0).Type())
}
