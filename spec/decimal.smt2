; decimal formatting (trusted): decstr(n) is strconv.FormatInt(n, 10); dec20(n) its zero-padded
; 20-character form for n >= 0.
(declare-fun decstr (Int) Bytes)
(declare-fun dec20 (Int) Bytes)
(assert (forall ((n Int)) (! (and (>= (blen (decstr n)) 1) (<= (blen (decstr n)) 20)) :pattern ((decstr n)))))
(assert (forall ((n Int)) (! (=> (>= n 0) (<= (blen (decstr n)) 19)) :pattern ((decstr n)))))
(assert (forall ((n Int) (i Int)) (! (=> (and (>= n 0) (<= 0 i) (< i (blen (decstr n)))) (and (<= 48 (bat (decstr n) i)) (<= (bat (decstr n) i) 57))) :pattern ((select (barr (decstr n)) i)))))
(assert (forall ((n Int)) (! (=> (>= n 0) (= (blen (dec20 n)) 20)) :pattern ((dec20 n)))))
; dec20 = zeros ++ decstr
(assert (forall ((n Int) (i Int)) (! (=> (and (>= n 0) (<= 0 i) (< i 20))
   (= (bat (dec20 n) i) (ite (< i (- 20 (blen (decstr n)))) 48 (bat (decstr n) (- i (- 20 (blen (decstr n))))))))
   :pattern ((select (barr (dec20 n)) i)))))
; digits only, hence no '.' (46) inside
(assert (forall ((n Int) (i Int)) (! (=> (and (>= n 0) (<= 0 i) (< i 20)) (and (<= 48 (bat (dec20 n) i)) (<= (bat (dec20 n) i) 57))) :pattern ((select (barr (dec20 n)) i)))))
; order preserving and injective on non-negative numbers
(assert (forall ((a Int) (b Int)) (! (=> (and (>= a 0) (>= b 0)) (= (blexlt (dec20 a) (dec20 b)) (< a b))) :pattern ((dec20 a) (dec20 b)))))
(assert (forall ((a Int) (b Int)) (! (=> (and (>= a 0) (>= b 0) (= (dec20 a) (dec20 b))) (= a b)) :pattern ((dec20 a) (dec20 b)))))
