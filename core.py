#!/usr/bin/env python3
# usage: core.py file.smt2 [solver] -- greedy minimal set of (assert ...) lines keeping the query unsat
import sys,subprocess,tempfile,os
f=sys.argv[1]; solver=(sys.argv[2] if len(sys.argv)>2 else 'z3').split()
lines=open(f).read().split('\n')
idx=[i for i,l in enumerate(lines) if l.startswith('(assert')]
def unsat(drop):
    t=tempfile.NamedTemporaryFile('w',suffix='.smt2',delete=False)
    t.write('\n'.join(l for i,l in enumerate(lines) if i not in drop and not l.startswith('(get-'))); t.close()
    try:
        o=subprocess.run(solver+['-T:5',t.name] if 'z3' in solver[0] else solver+['--tlimit=5000',t.name],capture_output=True,text=True,timeout=10).stdout
    except Exception: o=''
    os.unlink(t.name)
    return o.strip().startswith('unsat')
drop=set()
assert unsat(drop), "not unsat"
for i in reversed(idx):
    if unsat(drop|{i}): drop.add(i)
for i in idx:
    if i not in drop: print(i+1, lines[i][:400])
