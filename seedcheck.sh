#!/bin/bash
# usage: seedcheck.sh <worktree> <PROP> <seed-name>
# 1. confirms the demonstration: fails with the change, passes without; 2. runs our check with the
# change applied to /repo (and reverts it); 3. stores everything under /verif/seeded/<seed-name>/
wt=$1; prop=$2; name=$3
export GOFLAGS=-mod=mod GOPROXY=off GOSUMDB=off GOTOOLCHAIN=local
out=/verif/seeded/$name; mkdir -p $out
cp $wt/SEED/patch.diff $out/patch.diff
cp $wt/SEED/meta.json $out/meta.agent.json 2>/dev/null
demo=$(ls $wt/SEED/*_test.go | head -1); cp $demo $out/
pkgdir=$(cd $wt && git status --short | grep '_test.go' | grep '^??' | awk '{print $2}' | head -1 | xargs dirname)
testname=$(grep -o 'func Test[A-Za-z0-9_]*' $demo | sed 's/func //' | paste -sd'|')
echo "demo: pkg=./$pkgdir tests=$testname"
cd $wt
go test -vet=off -count=1 -run "^($testname)\$" ./$pkgdir/ > $out/demo_with_change.txt 2>&1; r1=$?
git apply -R $out/patch.diff || echo "cannot reverse patch in worktree"
go test -vet=off -count=1 -run "^($testname)\$" ./$pkgdir/ > $out/demo_without_change.txt 2>&1; r2=$?
git apply $out/patch.diff
echo "demo with change: exit $r1 (want !=0); without: exit $r2 (want 0)"
cd /repo && git apply $out/patch.diff || { echo "PATCH DOES NOT APPLY"; exit 1; }
go build ./$pkgdir/ 2>&1 | tail -2
cd /verif && ./check $prop > $out/check_output.txt 2>&1; r3=$?
cd /repo && git apply -R $out/patch.diff
grep -v "^  " $out/check_output.txt | tail -4
echo "check exit=$r3"
cat > $out/meta.json <<EOM
{"property":"$prop","demo_fails_with_change":$([ $r1 -ne 0 ] && echo true || echo false),"demo_passes_without_change":$([ $r2 -eq 0 ] && echo true || echo false),"check_exit":$r3,"demo_cmd":"go test -vet=off -count=1 -run '^($testname)\$' ./$pkgdir/","ran":"seedcheck.sh: demo in scratch worktree with and without the change; patch applied to /repo, ./check $prop, reverted"}
EOM
