package main

import "strings"

// quantified assumptions of the shape (forall ((k Int)) BODY) are additionally instantiated at the
// index terms the program actually uses: the solvers' E-matching is unreliable on patterns that
// contain arithmetic (slice offset + index), and an instance of a universally quantified
// assumption is always sound.
type quantAssumption struct {
	guard Term
	v     string
	body  string
	done  map[string]bool
}

func (u *Unit) recordQuant(guard, f Term) {
	s := f.S
	const pre = "(forall (("
	if !strings.HasPrefix(s, pre) {
		return
	}
	rest := s[len(pre):]
	i := strings.Index(rest, " Int)) ")
	if i < 0 || strings.ContainsAny(rest[:i], "() ") {
		return
	}
	v := rest[:i]
	body := rest[i+len(" Int)) ") : len(rest)-1]
	if strings.HasPrefix(body, "(! ") {
		// strip the pattern annotation
		if j := strings.LastIndex(body, " :pattern"); j > 0 {
			body = body[3:j]
		}
	}
	u.quants = append(u.quants, &quantAssumption{guard: guard, v: v, body: body, done: map[string]bool{}})
}

func substToken(body, v, repl string) string {
	toks := tokenize(body)
	var b strings.Builder
	for i, t := range toks {
		if t == v {
			t = repl
		}
		if i > 0 && toks[i-1] != "(" && t != ")" {
			b.WriteByte(' ')
		}
		b.WriteString(t)
	}
	return b.String()
}

// instantiateAt adds the instances of all recorded quantified assumptions at the index term t.
func (u *Unit) instantiateAt(t Term) {
	if t.Sort != "Int" || len(u.quants) == 0 {
		return
	}
	for _, q := range u.quants {
		if q.done[t.S] || len(q.done) > 12 {
			continue
		}
		q.done[t.S] = true
		inst := Term{substToken(q.body, q.v, t.S), "Bool"}
		u.lines = append(u.lines, "(assert "+implies(q.guard, inst).S+")")
	}
}
