package main

import (
	"fmt"
	"os"
	"strconv"
	"strings"
)

// ---- spec expression AST ------------------------------------------------------------------------

type SVar struct{ Name, Sort string }

type SExpr struct {
	Kind string // id int str bin un call index slice field quant ite
	Name string // identifier, operator, callee, field, quantifier kind
	Args []*SExpr
	Vars []SVar
	Src  string
}

func (e *SExpr) String() string {
	if e == nil {
		return "<nil>"
	}
	switch e.Kind {
	case "id", "int":
		return e.Name
	case "str":
		return strconv.Quote(e.Name)
	case "bin":
		return "(" + e.Args[0].String() + " " + e.Name + " " + e.Args[1].String() + ")"
	case "un":
		return e.Name + e.Args[0].String()
	case "call":
		var as []string
		for _, a := range e.Args {
			as = append(as, a.String())
		}
		return e.Name + "(" + strings.Join(as, ", ") + ")"
	case "index":
		return e.Args[0].String() + "[" + e.Args[1].String() + "]"
	case "slice":
		return e.Args[0].String() + "[" + e.Args[1].String() + ":" + e.Args[2].String() + "]"
	case "field":
		return e.Args[0].String() + "." + e.Name
	case "quant":
		var vs []string
		for _, v := range e.Vars {
			vs = append(vs, v.Name+" "+v.Sort)
		}
		return "(" + e.Name + " " + strings.Join(vs, ", ") + " :: " + e.Args[0].String() + ")"
	case "ite":
		return "(" + e.Args[0].String() + " ? " + e.Args[1].String() + " : " + e.Args[2].String() + ")"
	}
	return "?"
}

type specLexer struct {
	toks []string
	pos  int
	src  string
}

func lexSpec(s string) ([]string, error) {
	var toks []string
	i := 0
	for i < len(s) {
		c := s[i]
		switch {
		case c == ' ' || c == '\t':
			i++
		case strings.HasPrefix(s[i:], "<==>"):
			toks = append(toks, "<==>")
			i += 4
		case strings.HasPrefix(s[i:], "==>"):
			toks = append(toks, "==>")
			i += 3
		case strings.HasPrefix(s[i:], "::"):
			toks = append(toks, "::")
			i += 2
		case strings.HasPrefix(s[i:], "||"), strings.HasPrefix(s[i:], "&&"), strings.HasPrefix(s[i:], "=="),
			strings.HasPrefix(s[i:], "!="), strings.HasPrefix(s[i:], "<="), strings.HasPrefix(s[i:], ">="):
			toks = append(toks, s[i:i+2])
			i += 2
		case strings.ContainsRune("()[]:,.?<>+-*/%!", rune(c)):
			toks = append(toks, string(c))
			i++
		case c == '"':
			j := i + 1
			for j < len(s) && s[j] != '"' {
				if s[j] == '\\' {
					j++
				}
				j++
			}
			if j >= len(s) {
				return nil, fmt.Errorf("unterminated string in %q", s)
			}
			toks = append(toks, s[i:j+1])
			i = j + 1
		case c == '\'':
			j := i + 1
			for j < len(s) && s[j] != '\'' {
				if s[j] == '\\' {
					j++
				}
				j++
			}
			toks = append(toks, s[i:j+1])
			i = j + 1
		case c >= '0' && c <= '9':
			j := i
			for j < len(s) && (s[j] >= '0' && s[j] <= '9' || s[j] >= 'a' && s[j] <= 'f' || s[j] >= 'A' && s[j] <= 'F' || s[j] == 'x' || s[j] == '_') {
				j++
			}
			toks = append(toks, s[i:j])
			i = j
		case c == '_' || c == '$' || c == '#' || c >= 'a' && c <= 'z' || c >= 'A' && c <= 'Z':
			j := i
			for j < len(s) && (s[j] == '_' || s[j] == '$' || s[j] == '#' || s[j] >= 'a' && s[j] <= 'z' || s[j] >= 'A' && s[j] <= 'Z' || s[j] >= '0' && s[j] <= '9') {
				j++
			}
			toks = append(toks, s[i:j])
			i = j
		default:
			return nil, fmt.Errorf("bad character %q in spec %q", c, s)
		}
	}
	return toks, nil
}

func parseSpec(s string) (*SExpr, error) {
	toks, err := lexSpec(s)
	if err != nil {
		return nil, err
	}
	p := &specLexer{toks: toks, src: s}
	var e *SExpr
	func() {
		defer func() {
			if r := recover(); r != nil {
				err = fmt.Errorf("spec parse error in %q: %v", s, r)
			}
		}()
		e = p.parseIff()
		if p.pos != len(p.toks) {
			panic("trailing tokens at " + p.peek())
		}
	}()
	if e != nil {
		e.Src = s
	}
	return e, err
}

func (p *specLexer) peek() string {
	if p.pos < len(p.toks) {
		return p.toks[p.pos]
	}
	return ""
}
func (p *specLexer) next() string { t := p.peek(); p.pos++; return t }
func (p *specLexer) expect(t string) {
	if p.peek() != t {
		panic("expected " + t + " got " + p.peek())
	}
	p.pos++
}

func (p *specLexer) parseIff() *SExpr {
	l := p.parseImp()
	for p.peek() == "<==>" {
		p.next()
		r := p.parseImp()
		l = &SExpr{Kind: "bin", Name: "<==>", Args: []*SExpr{l, r}}
	}
	return l
}
func (p *specLexer) parseImp() *SExpr {
	l := p.parseTern()
	if p.peek() == "==>" {
		p.next()
		r := p.parseImp() // right assoc
		return &SExpr{Kind: "bin", Name: "==>", Args: []*SExpr{l, r}}
	}
	return l
}
func (p *specLexer) parseTern() *SExpr {
	c := p.parseOr()
	if p.peek() == "?" {
		p.next()
		a := p.parseTern()
		p.expect(":")
		b := p.parseTern()
		return &SExpr{Kind: "ite", Args: []*SExpr{c, a, b}}
	}
	return c
}
func (p *specLexer) parseOr() *SExpr {
	l := p.parseAnd()
	for p.peek() == "||" {
		p.next()
		l = &SExpr{Kind: "bin", Name: "||", Args: []*SExpr{l, p.parseAnd()}}
	}
	return l
}
func (p *specLexer) parseAnd() *SExpr {
	l := p.parseCmp()
	for p.peek() == "&&" {
		p.next()
		l = &SExpr{Kind: "bin", Name: "&&", Args: []*SExpr{l, p.parseCmp()}}
	}
	return l
}
func (p *specLexer) parseCmp() *SExpr {
	l := p.parseAdd()
	for {
		switch p.peek() {
		case "==", "!=", "<", "<=", ">", ">=":
			op := p.next()
			r := p.parseAdd()
			l = &SExpr{Kind: "bin", Name: op, Args: []*SExpr{l, r}}
		default:
			return l
		}
	}
}
func (p *specLexer) parseAdd() *SExpr {
	l := p.parseMul()
	for p.peek() == "+" || p.peek() == "-" {
		op := p.next()
		l = &SExpr{Kind: "bin", Name: op, Args: []*SExpr{l, p.parseMul()}}
	}
	return l
}
func (p *specLexer) parseMul() *SExpr {
	l := p.parseUnary()
	for p.peek() == "*" || p.peek() == "/" || p.peek() == "%" {
		op := p.next()
		l = &SExpr{Kind: "bin", Name: op, Args: []*SExpr{l, p.parseUnary()}}
	}
	return l
}
func (p *specLexer) parseUnary() *SExpr {
	switch p.peek() {
	case "!":
		p.next()
		return &SExpr{Kind: "un", Name: "!", Args: []*SExpr{p.parseUnary()}}
	case "-":
		p.next()
		return &SExpr{Kind: "un", Name: "-", Args: []*SExpr{p.parseUnary()}}
	case "*":
		p.next()
		return &SExpr{Kind: "un", Name: "*", Args: []*SExpr{p.parseUnary()}}
	}
	return p.parsePostfix()
}
func (p *specLexer) parsePostfix() *SExpr {
	e := p.parsePrimary()
	for {
		switch p.peek() {
		case ".":
			p.next()
			name := p.next()
			if p.peek() == "(" && e.Kind == "id" {
				// qualified call pkg.F(...)
				p.next()
				args := p.parseArgs()
				e = &SExpr{Kind: "call", Name: e.Name + "." + name, Args: args}
			} else {
				e = &SExpr{Kind: "field", Name: name, Args: []*SExpr{e}}
			}
		case "[":
			p.next()
			var lo, hi *SExpr
			if p.peek() != ":" {
				lo = p.parseIff()
			}
			if p.peek() == ":" {
				p.next()
				if p.peek() != "]" {
					hi = p.parseIff()
				}
				p.expect("]")
				if lo == nil {
					lo = &SExpr{Kind: "int", Name: "0"}
				}
				if hi == nil {
					hi = &SExpr{Kind: "call", Name: "len", Args: []*SExpr{e}}
				}
				e = &SExpr{Kind: "slice", Args: []*SExpr{e, lo, hi}}
			} else {
				p.expect("]")
				e = &SExpr{Kind: "index", Args: []*SExpr{e, lo}}
			}
		default:
			return e
		}
	}
}
func (p *specLexer) parseArgs() []*SExpr {
	var args []*SExpr
	for p.peek() != ")" {
		args = append(args, p.parseIff())
		if p.peek() == "," {
			p.next()
		}
	}
	p.expect(")")
	return args
}
func (p *specLexer) parsePrimary() *SExpr {
	t := p.next()
	switch {
	case t == "(":
		e := p.parseIff()
		p.expect(")")
		return e
	case t == "forall" || t == "exists":
		var vars []SVar
		for p.peek() != "::" {
			name := p.next()
			sort := "Int"
			if p.peek() != "," && p.peek() != "::" {
				sort = p.parseSortTok()
			}
			vars = append(vars, SVar{name, sort})
			if p.peek() == "," {
				p.next()
			}
		}
		p.expect("::")
		body := p.parseIff()
		return &SExpr{Kind: "quant", Name: t, Vars: vars, Args: []*SExpr{body}}
	case t == "":
		panic("unexpected end")
	case t[0] == '"':
		s, err := strconv.Unquote(t)
		if err != nil {
			panic(err)
		}
		return &SExpr{Kind: "str", Name: s}
	case t[0] == '\'':
		r, _, _, err := strconv.UnquoteChar(t[1:len(t)-1], '\'')
		if err != nil {
			panic(err)
		}
		return &SExpr{Kind: "int", Name: strconv.Itoa(int(r))}
	case t[0] >= '0' && t[0] <= '9':
		t = strings.ReplaceAll(t, "_", "")
		if strings.HasPrefix(t, "0x") {
			n, err := strconv.ParseUint(t[2:], 16, 64)
			if err != nil {
				panic(err)
			}
			return &SExpr{Kind: "int", Name: strconv.FormatUint(n, 10)}
		}
		return &SExpr{Kind: "int", Name: t}
	default:
		if p.peek() == "(" {
			p.next()
			args := p.parseArgs()
			return &SExpr{Kind: "call", Name: t, Args: args}
		}
		return &SExpr{Kind: "id", Name: t}
	}
}

// parseSortTok reads a sort: Ident or a parenthesised SMT sort.
func (p *specLexer) parseSortTok() string {
	t := p.next()
	if t != "(" {
		return t
	}
	depth := 1
	parts := []string{"("}
	for depth > 0 {
		t = p.next()
		if t == "" {
			panic("unterminated sort")
		}
		if t == "(" {
			depth++
		}
		if t == ")" {
			depth--
		}
		parts = append(parts, t)
	}
	s := strings.Join(parts, " ")
	s = strings.ReplaceAll(s, "( ", "(")
	s = strings.ReplaceAll(s, " )", ")")
	return s
}

// ---- contract blocks ----------------------------------------------------------------------------

type Clause struct {
	Expr *SExpr
	Src  string
}

type LoopSpec struct {
	Invariants []Clause
	Decreases  *Clause
}

type CallAssert struct {
	Callee string // substring of the callee's name
	Nth    int    // -1 = every matching call
	Clause Clause
}

type Contract struct {
	Kind      string // "func" or "trusted"
	Pkg       string // package path the block was found in
	Name      string // qualified name as written
	Requires  []Clause
	Ensures   []Clause
	AssumedEnsures []Clause
	Loops     map[int]*LoopSpec
	CallAsserts []CallAssert
	Frame     []string // nil = unspecified (everything for unknown); ["nothing"]; heap names
	HasFrame  bool
	FrameTrusted bool
	Opts      map[string]string
	Props     []string
	File      string
	Line      int
}

type Lemma struct {
	Pkg, Name string
	Vars      []SVar
	Requires  []Clause
	Ensures   []Clause
	Props     []string
	File      string
}

type GhostField struct {
	Pkg, Type, Field, Sort string
}

type ContractFile struct {
	Pkg       string
	Contracts []*Contract
	Lemmas    []*Lemma
	Ghosts    []GhostField
	SMT       []string // raw prelude lines
	GoLines   []string // executable oracles for replays
	Imports   []string
}

// parseContractFile reads every "//@" line of a file.
func parseContractFile(path, pkg string) (*ContractFile, error) {
	data, err := os.ReadFile(path)
	if err != nil {
		return nil, err
	}
	cf := &ContractFile{Pkg: pkg}
	var lines []struct {
		text string
		no   int
	}
	for i, l := range strings.Split(string(data), "\n") {
		t := strings.TrimSpace(l)
		if !strings.HasPrefix(t, "//@") {
			continue
		}
		t = strings.TrimSpace(t[3:])
		if t == "" {
			continue
		}
		if strings.HasPrefix(t, "..") && len(lines) > 0 {
			lines[len(lines)-1].text += " " + strings.TrimSpace(t[2:])
			continue
		}
		lines = append(lines, struct {
			text string
			no   int
		}{t, i + 1})
	}
	var cur *Contract
	var curLemma *Lemma
	mk := func(src string, no int) (Clause, error) {
		e, err := parseSpec(src)
		if err != nil {
			return Clause{}, fmt.Errorf("%s:%d: %v", path, no, err)
		}
		return Clause{e, src}, nil
	}
	for _, ln := range lines {
		word, rest := splitWord(ln.text)
		switch word {
		case "func", "trusted", "pure":
			curLemma = nil
			if word == "trusted" || word == "pure" {
				w2, r2 := splitWord(rest)
				if w2 == "func" {
					rest = r2
				}
			}
			name, r := splitWord(rest)
			cur = &Contract{Kind: "func", Pkg: pkg, Name: name, Loops: map[int]*LoopSpec{}, Opts: map[string]string{}, File: path, Line: ln.no}
			if word != "func" {
				cur.Kind = "trusted"
			}
			if word == "pure" {
				cur.Frame, cur.HasFrame = []string{"nothing"}, true
			}
			for _, p := range strings.Fields(r) {
				if strings.HasPrefix(p, "[") {
					cur.Props = append(cur.Props, strings.Split(strings.Trim(p, "[]"), ",")...)
				}
			}
			cf.Contracts = append(cf.Contracts, cur)
		case "lemma":
			cur = nil
			name, r := splitWord(rest)
			curLemma = &Lemma{Pkg: pkg, Name: name, File: path}
			for _, p := range strings.Fields(r) {
				if strings.HasPrefix(p, "[") {
					curLemma.Props = append(curLemma.Props, strings.Split(strings.Trim(p, "[]"), ",")...)
				}
			}
			cf.Lemmas = append(cf.Lemmas, curLemma)
		case "forall":
			if curLemma == nil {
				return nil, fmt.Errorf("%s:%d: forall outside lemma", path, ln.no)
			}
			for _, v := range strings.Split(rest, ",") {
				n, s := splitWord(strings.TrimSpace(v))
				if s == "" {
					s = "Int"
				}
				curLemma.Vars = append(curLemma.Vars, SVar{n, s})
			}
		case "ghost":
			tf, sort := splitWord(rest)
			i := strings.LastIndex(tf, ".")
			if i < 0 {
				return nil, fmt.Errorf("%s:%d: ghost needs Type.field", path, ln.no)
			}
			cf.Ghosts = append(cf.Ghosts, GhostField{pkg, tf[:i], tf[i+1:], sort})
		case "smt":
			cf.SMT = append(cf.SMT, rest)
		case "go":
			// executable form of a spec function, used only by counterexample replays:
			// //@ go func oracle_<name>(...) bool { ... }
			cf.GoLines = append(cf.GoLines, rest)
		case "import":
			cf.Imports = append(cf.Imports, rest)
		case "assume-ensures":
			// assumed at call sites, not checked against the body (listed in the trusted base)
			c, err := mk(rest, ln.no)
			if err != nil {
				return nil, err
			}
			if cur == nil {
				return nil, fmt.Errorf("%s:%d: clause outside block", path, ln.no)
			}
			cur.AssumedEnsures = append(cur.AssumedEnsures, c)
		case "requires", "ensures":
			c, err := mk(rest, ln.no)
			if err != nil {
				return nil, err
			}
			switch {
			case curLemma != nil && word == "requires":
				curLemma.Requires = append(curLemma.Requires, c)
			case curLemma != nil:
				curLemma.Ensures = append(curLemma.Ensures, c)
			case cur != nil && word == "requires":
				cur.Requires = append(cur.Requires, c)
			case cur != nil:
				cur.Ensures = append(cur.Ensures, c)
			default:
				return nil, fmt.Errorf("%s:%d: clause outside block", path, ln.no)
			}
		case "frame":
			if cur == nil {
				return nil, fmt.Errorf("%s:%d: frame outside block", path, ln.no)
			}
			cur.HasFrame = true
			for _, f := range strings.Split(rest, ",") {
				cur.Frame = append(cur.Frame, strings.TrimSpace(f))
			}
		case "loop":
			if cur == nil {
				return nil, fmt.Errorf("%s:%d: loop outside block", path, ln.no)
			}
			ks, r := splitWord(rest)
			k, err := strconv.Atoi(strings.TrimSuffix(ks, ":"))
			if err != nil {
				return nil, fmt.Errorf("%s:%d: loop ordinal: %v", path, ln.no, err)
			}
			kind, src := splitWord(r)
			c, err := mk(src, ln.no)
			if err != nil {
				return nil, err
			}
			ls := cur.Loops[k]
			if ls == nil {
				ls = &LoopSpec{}
				cur.Loops[k] = ls
			}
			switch kind {
			case "invariant":
				ls.Invariants = append(ls.Invariants, c)
			case "decreases":
				ls.Decreases = &c
			default:
				return nil, fmt.Errorf("%s:%d: unknown loop clause %s", path, ln.no, kind)
			}
		case "assert@call":
			if cur == nil {
				return nil, fmt.Errorf("%s:%d: assert@call outside block", path, ln.no)
			}
			i := strings.Index(rest, ":")
			if i < 0 {
				return nil, fmt.Errorf("%s:%d: assert@call needs ':'", path, ln.no)
			}
			callee := strings.TrimSpace(rest[:i])
			nth := -1
			if j := strings.Index(callee, "#"); j >= 0 {
				nth, _ = strconv.Atoi(callee[j+1:])
				callee = callee[:j]
			}
			c, err := mk(strings.TrimSpace(rest[i+1:]), ln.no)
			if err != nil {
				return nil, err
			}
			cur.CallAsserts = append(cur.CallAsserts, CallAssert{callee, nth, c})
		case "opt":
			if cur == nil {
				return nil, fmt.Errorf("%s:%d: opt outside block", path, ln.no)
			}
			for _, kv := range strings.Fields(rest) {
				k, v, _ := strings.Cut(kv, "=")
				cur.Opts[k] = v
			}
		default:
			return nil, fmt.Errorf("%s:%d: unknown contract keyword %q", path, ln.no, word)
		}
	}
	return cf, nil
}

func splitWord(s string) (string, string) {
	s = strings.TrimSpace(s)
	i := strings.IndexAny(s, " \t")
	if i < 0 {
		return s, ""
	}
	return s[:i], strings.TrimSpace(s[i:])
}
