package main

import (
	"crypto/sha1"
	"fmt"
	"go/types"
	"sort"
	"strings"

	"golang.org/x/tools/go/ssa"
)

// A trusted contract with `opt functional` says: the callee is a deterministic function of its
// arguments and of the heap. Two calls with the same arguments in the same heap state return equal
// results. The heap state is identified syntactically (the set of current heap terms): any write in
// between gives a different state, hence unrelated results (conservative).

func (u *Unit) heapVersion(st *State) Term {
	var parts []string
	for n, t := range st.heaps {
		if init, ok := u.heapInit[n]; ok && init.S == t.S {
			continue // still the entry version
		}
		if strings.HasPrefix(n, "RV:") || strings.HasPrefix(n, "GC:") {
			continue
		}
		parts = append(parts, n+"="+t.S)
	}
	sort.Strings(parts)
	parts = append(parts, "epoch="+st.epoch)
	var pend []string
	for h, t := range st.pending {
		pend = append(pend, h+"~"+t)
	}
	sort.Strings(pend)
	parts = append(parts, pend...)
	sum := sha1.Sum([]byte(strings.Join(parts, ";")))
	name := fmt.Sprintf("hv_%x", sum[:8])
	u.declareOnce(name, fmt.Sprintf("(declare-const %s Int)", name))
	return Term{name, "Int"}
}

// functionalApp builds the application term for callee `name` on args in state st (ok=false when an
// argument cannot be represented).
func (u *Unit) functionalApp(st *State, name string, args []Val, rs string) (Term, bool) {
	var sorts []string
	var ts []Term
	for _, a := range args {
		t := u.termOf(a)
		if t.S == "" || t.Sort == "Nil" {
			return Term{}, false
		}
		if t.Sort == "Slice" && a.Typ != nil {
			if sl, ok := a.Typ.Underlying().(*types.Slice); ok && u.typeKey(sl.Elem()) == "uint8" {
				t = u.bytesOf(st, t)
			}
		}
		sorts = append(sorts, t.Sort)
		ts = append(ts, t)
	}
	sorts = append(sorts, "Int")
	ts = append(ts, u.heapVersion(st))
	fn := "fn_" + mangle(name) + "_" + mangle(strings.Join(sorts, "_")) + "_" + mangle(rs)
	u.declareOnce(fn, fmt.Sprintf("(declare-fun %s (%s) %s)", fn, strings.Join(sorts, " "), rs))
	return app(rs, fn, ts...), true
}

// functionalResult constrains the result of a call to a functional callee.
func (u *Unit) functionalResult(st *State, name string, args []Val, res Val, reach Term) {
	if res.Tup != nil || res.T.S == "" {
		return
	}
	rs0 := res.T.Sort
	isB := false
	if rs0 == "Slice" && res.Typ != nil {
		if sl, ok := res.Typ.Underlying().(*types.Slice); ok && u.typeKey(sl.Elem()) == "uint8" {
			rs0, isB = "Bytes", true
		}
	}
	if rs0 == "Slice" || rs0 == "Opaque" {
		return
	}
	if ap0, ok := u.functionalApp(st, name, args, rs0); ok {
		if isB {
			u.assume(reach, eq2(u.bytesOf(st, res.T), ap0))
			u.assume(reach, eq(sLen(res.T), app("Int", "blen", ap0)))
		} else {
			u.assume(reach, eq2(res.T, ap0))
		}
		u.note("functional callee " + name + ": equal arguments in an unchanged heap give equal results (assumed)")
	}
	return
}

func (u *Unit) functionalResultOld(st *State, name string, args []Val, res Val, reach Term) {
	var sorts []string
	var ts []Term
	for _, a := range args {
		t := u.termOf(a)
		if t.S == "" || t.Sort == "Nil" {
			return
		}
		if t.Sort == "Slice" && a.Typ != nil {
			if sl, ok := a.Typ.Underlying().(*types.Slice); ok && u.typeKey(sl.Elem()) == "uint8" {
				t = u.bytesOf(st, t)
			}
		}
		sorts = append(sorts, t.Sort)
		ts = append(ts, t)
	}
	sorts = append(sorts, "Int")
	ts = append(ts, u.heapVersion(st))
	rs := res.T.Sort
	isBytes := false
	if rs == "Slice" && res.Typ != nil {
		if sl, ok := res.Typ.Underlying().(*types.Slice); ok && u.typeKey(sl.Elem()) == "uint8" {
			rs, isBytes = "Bytes", true
		}
	}
	if rs == "Slice" || rs == "Opaque" {
		return
	}
	fn := "fn_" + mangle(name) + "_" + mangle(strings.Join(sorts, "_"))
	u.declareOnce(fn, fmt.Sprintf("(declare-fun %s (%s) %s)", fn, strings.Join(sorts, " "), rs))
	ap := app(rs, fn, ts...)
	if isBytes {
		u.assume(reach, eq2(u.bytesOf(st, res.T), ap))
		u.assume(reach, eq(sLen(res.T), app("Int", "blen", ap)))
	} else {
		u.assume(reach, eq2(res.T, ap))
	}
	u.note("functional callee " + name + ": equal arguments in an unchanged heap give equal results (assumed)")
}

func (u *Unit) lookupFuncByName(full string) *ssa.Function {
	return u.W.lookupFunc(full)
}
