module gocv

go 1.22.0

toolchain go1.23.5

require golang.org/x/tools v0.29.0

require (
	golang.org/x/mod v0.22.0 // indirect
	golang.org/x/sync v0.10.0 // indirect
)
