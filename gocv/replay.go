package main

import (
	"encoding/json"
	"fmt"
	"go/types"
	"os"
	"os/exec"
	"path/filepath"
	"strings"
)

const replayBytes = 24 // how many leading bytes of a byte string are read from a model

// replayValueTerms lists the model values needed to rebuild the inputs of the function.
func (u *Unit) replayValueTerms() []string {
	var out []string
	add := func(s string) { out = append(out, s) }
	bytesOfSlice := func(s string) {
		if _, ok := u.heapInit["M:uint8"]; !ok {
			return
		}
		add("(slen " + s + ")")
		add("(= (sarr " + s + ") 0)")
		for k := 0; k < replayBytes; k++ {
			add(fmt.Sprintf("(select (select %s (sarr %s)) (+ (soff %s) %d))", u.heapInit["M:uint8"].S, s, s, k))
		}
	}
	for _, in := range u.inputs {
		if in.Typ == nil {
			switch in.Term.Sort {
			case "Bytes":
				add("(blen " + in.Term.S + ")")
				for k := 0; k < replayBytes; k++ {
					add(fmt.Sprintf("(bat %s %d)", in.Term.S, k))
				}
			default:
				add(in.Term.S)
			}
			continue
		}
		switch t := in.Typ.Underlying().(type) {
		case *types.Basic:
			add(in.Term.S)
			if t.Info()&types.IsString != 0 {
				add("(blen " + in.Term.S + ")")
				for k := 0; k < replayBytes; k++ {
					add(fmt.Sprintf("(bat %s %d)", in.Term.S, k))
				}
			}
		case *types.Slice:
			if u.typeKey(t.Elem()) == "uint8" {
				bytesOfSlice(in.Term.S)
			}
		case *types.Pointer:
			add(in.Term.S)
			sst, key, ok := u.transparentStruct(t.Elem())
			if !ok {
				continue
			}
			for i := 0; i < sst.NumFields(); i++ {
				h, ok := u.heapInit[u.fieldHeapName(key, sst, i)]
				if !ok {
					continue
				}
				ft := sst.Field(i).Type()
				fterm := fmt.Sprintf("(select %s %s)", h.S, in.Term.S)
				switch ftt := ft.Underlying().(type) {
				case *types.Basic:
					add(fterm)
					if ftt.Info()&types.IsString != 0 {
						add("(blen " + fterm + ")")
						for k := 0; k < replayBytes; k++ {
							add(fmt.Sprintf("(bat %s %d)", fterm, k))
						}
					}
				case *types.Slice:
					if u.typeKey(ftt.Elem()) == "uint8" {
						bytesOfSlice(fterm)
					}
				}
			}
		}
	}
	return out
}

// smallModelHints: constraints added to the candidate query only (a candidate is validated by
// replay, so restricting the search to small inputs is harmless).
func (u *Unit) smallModelHints() []string {
	out := append([]string(nil), u.groundHints...)
	for _, in := range u.inputs {
		if in.Typ == nil {
			if in.Term.Sort == "Bytes" {
				out = append(out, fmt.Sprintf("(assert (<= (blen %s) %d))", in.Term.S, replayBytes))
			}
			continue
		}
		switch t := in.Typ.Underlying().(type) {
		case *types.Basic:
			if t.Info()&types.IsString != 0 {
				out = append(out, fmt.Sprintf("(assert (<= (blen %s) %d))", in.Term.S, replayBytes))
			}
		case *types.Slice:
			out = append(out, fmt.Sprintf("(assert (<= (slen %s) %d))", in.Term.S, replayBytes))
		case *types.Pointer:
			sst, key, ok := u.transparentStruct(t.Elem())
			if !ok {
				continue
			}
			for i := 0; i < sst.NumFields(); i++ {
				h, ok := u.heapInit[u.fieldHeapName(key, sst, i)]
				if !ok {
					continue
				}
				if _, isSl := sst.Field(i).Type().Underlying().(*types.Slice); isSl {
					out = append(out, fmt.Sprintf("(assert (<= (slen (select %s %s)) %d))", h.S, in.Term.S, replayBytes))
				}
			}
		}
	}
	return out
}

type goLit struct {
	expr string
	ok   bool
}

func smtInt(vals map[string]string, term string) (int64, bool) {
	v, ok := vals[term]
	if !ok {
		return 0, false
	}
	s, ok := smtIntValue(v)
	if !ok {
		return 0, false
	}
	var n int64
	if _, err := fmt.Sscan(s, &n); err != nil {
		return 0, false
	}
	return n, true
}

func (u *Unit) modelByteSlice(vals map[string]string, s string) (string, bool) {
	if vals["(= (sarr "+s+") 0)"] == "true" {
		return "[]byte(nil)", true
	}
	n, ok := smtInt(vals, "(slen "+s+")")
	if !ok || n < 0 || n > replayBytes {
		return "", false
	}
	var bs []string
	for k := int64(0); k < n; k++ {
		b, ok := smtInt(vals, fmt.Sprintf("(select (select %s (sarr %s)) (+ (soff %s) %d))", u.heapInit["M:uint8"].S, s, s, k))
		if !ok {
			b = 0
		}
		bs = append(bs, fmt.Sprint(((b%256)+256)%256))
	}
	return "[]byte{" + strings.Join(bs, ", ") + "}", true
}

func modelString(vals map[string]string, s string) (string, bool) {
	n, ok := smtInt(vals, "(blen "+s+")")
	if !ok || n < 0 || n > replayBytes {
		return "", false
	}
	bs := make([]byte, 0, n)
	for k := int64(0); k < n; k++ {
		b, _ := smtInt(vals, fmt.Sprintf("(bat %s %d)", s, k))
		bs = append(bs, byte(((b%256)+256)%256))
	}
	return fmt.Sprintf("%q", string(bs)), true
}

// goValue renders the model value of one input as a Go expression.
func (u *Unit) goValue(vals map[string]string, in InputSym, qual func(*types.Package) string) (string, bool) {
	switch t := in.Typ.Underlying().(type) {
	case *types.Basic:
		switch {
		case t.Info()&types.IsBoolean != 0:
			return vals[in.Term.S], vals[in.Term.S] != ""
		case t.Info()&types.IsInteger != 0:
			n, ok := smtIntValue(vals[in.Term.S])
			return fmt.Sprintf("%s(%s)", types.TypeString(in.Typ, qual), n), ok
		case t.Info()&types.IsString != 0:
			return modelString(vals, in.Term.S)
		}
	case *types.Slice:
		if u.typeKey(t.Elem()) == "uint8" {
			if _, ok := u.heapInit["M:uint8"]; !ok {
				return "[]byte(nil)", true
			}
			return u.modelByteSlice(vals, in.Term.S)
		}
	case *types.Pointer:
		if p, ok := smtIntValue(vals[in.Term.S]); ok && p == "0" {
			return "nil", true
		}
		sst, key, ok := u.transparentStruct(t.Elem())
		if !ok {
			return "", false
		}
		var fs []string
		for i := 0; i < sst.NumFields(); i++ {
			f := sst.Field(i)
			h, ok := u.heapInit[u.fieldHeapName(key, sst, i)]
			if !ok {
				continue // never read: zero value is as good as any
			}
			fterm := fmt.Sprintf("(select %s %s)", h.S, in.Term.S)
			switch ft := f.Type().Underlying().(type) {
			case *types.Basic:
				switch {
				case ft.Info()&types.IsBoolean != 0:
					fs = append(fs, f.Name()+": "+vals[fterm])
				case ft.Info()&types.IsInteger != 0:
					n, ok := smtIntValue(vals[fterm])
					if !ok {
						return "", false
					}
					fs = append(fs, f.Name()+": "+n)
				case ft.Info()&types.IsString != 0:
					s, ok := modelString(vals, fterm)
					if !ok {
						return "", false
					}
					fs = append(fs, f.Name()+": "+s)
				default:
					return "", false
				}
			case *types.Slice:
				if u.typeKey(ft.Elem()) != "uint8" {
					return "", false
				}
				s, ok := u.modelByteSlice(vals, fterm)
				if !ok {
					return "", false
				}
				fs = append(fs, f.Name()+": "+s)
			default:
				return "", false
			}
		}
		return "&" + types.TypeString(t.Elem(), qual) + "{" + strings.Join(fs, ", ") + "}", true
	}
	return "", false
}

// ---- spec clause -> Go expression (executable oracle) --------------------------------------------

type goGen struct {
	u      *Unit
	params map[string]bool
	nres   int
	fail   string
}

func (g *goGen) expr(e *SExpr) string {
	if g.fail != "" {
		return "false"
	}
	switch e.Kind {
	case "id":
		switch e.Name {
		case "result", "result0":
			return "r0"
		case "result1":
			return "r1"
		case "result2":
			return "r2"
		case "true", "false", "nil":
			return e.Name
		}
		return e.Name
	case "int":
		return e.Name
	case "str":
		return fmt.Sprintf("%q", e.Name)
	case "un":
		return "(" + e.Name + g.expr(e.Args[0]) + ")"
	case "bin":
		a, b := g.expr(e.Args[0]), g.expr(e.Args[1])
		switch e.Name {
		case "==>":
			return "(!(" + a + ") || (" + b + "))"
		case "<==>":
			return "((" + a + ") == (" + b + "))"
		}
		return "(" + a + " " + e.Name + " " + b + ")"
	case "ite":
		return "func() bool { if " + g.expr(e.Args[0]) + " { return " + g.expr(e.Args[1]) + " }; return " + g.expr(e.Args[2]) + " }()"
	case "field":
		return g.expr(e.Args[0]) + "." + e.Name
	case "index":
		return "int(" + g.expr(e.Args[0]) + "[" + g.expr(e.Args[1]) + "])"
	case "slice":
		return g.expr(e.Args[0]) + "[" + g.expr(e.Args[1]) + ":" + g.expr(e.Args[2]) + "]"
	case "call":
		var as []string
		for _, a := range e.Args {
			as = append(as, g.expr(a))
		}
		switch e.Name {
		case "len":
			return "len(" + as[0] + ")"
		case "bytes", "string":
			return "string(" + as[0] + ")"
		case "isnil":
			return "(" + as[0] + " == nil)"
		case "old":
			// inputs are copied before the call: old(x) is evaluated on the copies
			return g.old(e.Args[0])
		case "blexlt":
			return "(string(" + as[0] + ") < string(" + as[1] + "))"
		case "blexle":
			return "(string(" + as[0] + ") <= string(" + as[1] + "))"
		case "beq":
			return "(string(" + as[0] + ") == string(" + as[1] + "))"
		case "bhasprefix":
			return "strings.HasPrefix(string(" + as[0] + "), string(" + as[1] + "))"
		case "bsub":
			return "string(" + as[0] + ")[" + as[1] + ":" + as[2] + "]"
		case "bcat":
			return "(string(" + as[0] + ") + string(" + as[1] + "))"
		case "blen":
			return "len(" + as[0] + ")"
		case "imax":
			return "max(" + as[0] + ", " + as[1] + ")"
		case "imin":
			return "min(" + as[0] + ", " + as[1] + ")"
		}
		if g.u.W.GoOracles[e.Name] {
			return "oracle_" + e.Name + "(" + strings.Join(as, ", ") + ")"
		}
		g.fail = "no executable form of " + e.Name
		return "false"
	case "quant":
		if len(e.Vars) != 1 || e.Vars[0].Sort != "Int" {
			g.fail = "quantifier over a non-integer"
			return "false"
		}
		v := e.Vars[0].Name
		body := g.expr(e.Args[0])
		if e.Name == "forall" {
			return fmt.Sprintf("func() bool { for %s := -2; %s < %d; %s++ { if !(%s) { return false } }; return true }()", v, v, replayBytes+4, v, guardIndex(body))
		}
		return fmt.Sprintf("func() bool { for %s := -2; %s < %d; %s++ { if %s { return true } }; return false }()", v, v, replayBytes+4, v, guardIndex(body))
	}
	g.fail = "cannot translate " + e.String()
	return "false"
}

// guardIndex wraps an expression so that an out-of-range index inside it counts as false / skipped
func guardIndex(body string) string {
	return "func() (ok bool) { defer func() { if recover() != nil { ok = true } }(); return " + body + " }()"
}

func (g *goGen) old(e *SExpr) string {
	s := g.expr(e)
	for p := range g.params {
		s = replaceIdent(s, p, "old_"+p)
	}
	return s
}

func replaceIdent(s, name, repl string) string {
	var b strings.Builder
	i := 0
	for i < len(s) {
		if strings.HasPrefix(s[i:], name) {
			before := i == 0 || !isIdentChar(s[i-1])
			after := i+len(name) >= len(s) || !isIdentChar(s[i+len(name)])
			if before && after && (i == 0 || s[i-1] != '.') {
				b.WriteString(repl)
				i += len(name)
				continue
			}
		}
		b.WriteByte(s[i])
		i++
	}
	return b.String()
}

func isIdentChar(c byte) bool {
	return c == '_' || c >= 'a' && c <= 'z' || c >= 'A' && c <= 'Z' || c >= '0' && c <= '9'
}

// tryReplay turns a counterexample into a Go test run against the real code. It returns the path
// of the test file and whether the violation was reproduced.
func tryReplay(prop string, o *Obligation, u *Unit, vals map[string]string, replayDir string, w *World) (string, bool) {
	if u == nil || u.Fn == nil || u.Contract == nil || u.Fn.Pkg == nil || u.Fn.Parent() != nil {
		return "", false
	}
	isSafety := strings.HasPrefix(o.Kind, "safety.")
	if o.Kind != "post" && !isSafety {
		return "", false
	}
	if o.Kind == "safety.overflow" {
		return "", false
	}
	pkg := u.Fn.Pkg.Pkg
	qual := func(p *types.Package) string {
		if p == pkg {
			return ""
		}
		return p.Name()
	}
	var decls, args, olds []string
	params := map[string]bool{}
	recv := ""
	enumerate := vals == nil
	for i, in := range u.inputs {
		if in.Typ == nil {
			return "", false
		}
		var gv string
		var ok bool
		if enumerate {
			gv, ok = enumExpr(in, i, qual)
		} else {
			gv, ok = u.goValue(vals, in, qual)
		}
		if !ok {
			return "", false
		}
		name := in.Name
		if name == "" || name == "_" {
			name = fmt.Sprintf("a%d", i)
		}
		params[name] = true
		decls = append(decls, fmt.Sprintf("\t%s := %s", name, gv))
		// copies for old()
		switch t := in.Typ.Underlying().(type) {
		case *types.Slice:
			olds = append(olds, fmt.Sprintf("\told_%s := append([]byte(nil), %s...); if %s == nil { old_%s = nil }", name, name, name, name))
		case *types.Pointer:
			_ = t
			olds = append(olds, fmt.Sprintf("\tvar old_%s = %s; if %s != nil { c := *%s; old_%s = &c }", name, name, name, name, name))
		default:
			olds = append(olds, fmt.Sprintf("\told_%s := %s", name, name))
		}
		olds = append(olds, fmt.Sprintf("\t_ = old_%s", name))
		if in.Kind == "recv" {
			recv = name
		} else {
			args = append(args, name)
		}
	}
	nres := u.Fn.Signature.Results().Len()
	var lhs []string
	for i := 0; i < nres; i++ {
		lhs = append(lhs, fmt.Sprintf("r%d", i))
	}
	call := u.Fn.Name() + "(" + strings.Join(args, ", ") + ")"
	if recv != "" {
		call = recv + "." + call
	}
	if nres > 0 {
		call = strings.Join(lhs, ", ") + " := " + call
	}
	testName := "TestGocvReplay_" + mangle(o.Name)
	var body strings.Builder
	fmt.Fprintf(&body, "// replay-package: ./%s\n// replay-test: %s\n// obligation: %s\n// clause: %s\n", strings.TrimPrefix(pkg.Path(), w.Module+"/"), testName, o.Name, o.Src)
	fmt.Fprintf(&body, "package %s\n\nimport (\n\t\"strings\"\n\t\"testing\"\n)\n\nvar _ = strings.HasPrefix\n\n", pkg.Name())
	for _, cf := range w.CFiles {
		if cf.Pkg == pkg.Path() {
			for _, g := range cf.GoLines {
				body.WriteString(g + "\n")
			}
		}
	}
	if enumerate {
		fmt.Fprintf(&body, "\nvar gocvEnumBytes = [][]byte{nil, {}, {0}, {0x61}, {0xff}, {0x61, 0x62}, {0x61, 0xff}, {0xff, 0xff}, {0x61, 0x2e, 0x30}, {0x61, 0x62, 0xff}, {0x62}, {0x61, 0xff, 0xff}}\nvar gocvEnumInts = []int64{0, 1, -1, 2, 7, 255, 256, -9223372036854775808, 9223372036854775807, 100000000}\n")
		fmt.Fprintf(&body, "\nfunc %s(t *testing.T) {\n\tfor gocvCase := 0; gocvCase < 1728; gocvCase++ {\n\tfunc() {\n%s\n%s\n", testName, strings.Join(decls, "\n"), strings.Join(olds, "\n"))
	} else {
		fmt.Fprintf(&body, "\nfunc %s(t *testing.T) {\n%s\n%s\n", testName, strings.Join(decls, "\n"), strings.Join(olds, "\n"))
	}
	if isSafety {
		// the panic must be of the kind the obligation is about (an index obligation is not reproduced
		// by a nil dereference that the function's precondition excludes)
		want := ""
		switch {
		case strings.Contains(o.Name, "safety.index"):
			want = "index out of range"
		case strings.Contains(o.Name, "safety.slice"):
			want = "slice bounds out of range"
		case strings.Contains(o.Name, "safety.nilmap"):
			want = "nil map"
		case strings.Contains(o.Name, "safety.nil"):
			want = "nil pointer"
		case strings.Contains(o.Name, "safety.div"):
			want = "divide by zero"
		}
		fmt.Fprintf(&body, "\tdefer func() {\n\t\tif r := recover(); r != nil {\n\t\t\tmsg := \"\"\n\t\t\tif e, ok := r.(error); ok { msg = e.Error() } else if s2, ok := r.(string); ok { msg = s2 }\n\t\t\tif %q == \"\" || strings.Contains(msg, %q) {\n\t\t\t\tt.Fatalf(\"VIOLATION reproduced: %s: the real code panics: %%v\", r)\n\t\t\t}\n\t\t}\n\t}()\n\t%s\n", want, want, o.Name, call)
		for _, l := range lhs {
			fmt.Fprintf(&body, "\t_ = %s\n", l)
		}
		if enumerate {
			body.WriteString("\t}()\n\t}\n}\n")
		} else {
			body.WriteString("\tt.Log(\"no panic on this input\")\n}\n")
		}
	} else {
		var clause *SExpr
		for k, en := range u.Contract.Ensures {
			if strings.HasPrefix(o.Name, fmt.Sprintf("%s#post[%d]", u.FnName, k)) || strings.HasPrefix(o.Name, fmt.Sprintf("%s#post[%d,", u.FnName, k)) {
				clause = en.Expr
			}
		}
		if clause == nil {
			return "", false
		}
		g := &goGen{u: u, params: params, nres: nres}
		oracle := g.expr(clause)
		if g.fail != "" {
			return "", false
		}
		fmt.Fprintf(&body, "\t%s\n", call)
		for _, l := range lhs {
			fmt.Fprintf(&body, "\t_ = %s\n", l)
		}
		if enumerate {
			fmt.Fprintf(&body, "\tif !(%s) {\n\t\tt.Fatalf(\"VIOLATION reproduced: %s: the real code breaks the clause on enumerated input #%%d\", gocvCase)\n\t}\n\t}()\n\t}\n}\n", oracle, o.Name)
		} else {
			fmt.Fprintf(&body, "\tif !(%s) {\n\t\tt.Fatalf(\"VIOLATION reproduced: %s: the real code breaks the clause on this input\")\n\t}\n\tt.Log(\"clause holds on this input\")\n}\n", oracle, o.Name)
		}
	}
	// imports used by the oracle / input literals (package-qualified names)
	text := body.String()
	var extra []string
	for _, imp := range pkg.Imports() {
		if imp.Name() == "strings" || imp.Name() == "testing" {
			continue
		}
		if strings.Contains(text, imp.Name()+".") && hasQualifiedUse(text, imp.Name()) {
			extra = append(extra, fmt.Sprintf("\t%q", imp.Path()))
		}
	}
	if len(extra) > 0 {
		text = strings.Replace(text, "\t\"strings\"\n", "\t\"strings\"\n"+strings.Join(extra, "\n")+"\n", 1)
	}
	body.Reset()
	body.WriteString(text)
	file := filepath.Join(replayDir, sanitize(o.Name)+"_test.go")
	if err := os.WriteFile(file, []byte(body.String()), 0o644); err != nil {
		return "", false
	}
	// overlay: inject the test into the package directory
	var pkgDir string
	for _, p := range w.Pkgs {
		if p.PkgPath == pkg.Path() && len(p.GoFiles) > 0 {
			pkgDir = filepath.Dir(p.GoFiles[0])
		}
	}
	if pkgDir == "" {
		return "", false
	}
	ov := map[string]map[string]string{"Replace": {filepath.Join(pkgDir, "gocv_replay_generated_test.go"): file}}
	if *flagOverlay != "" {
		var extra map[string]string
		if d, err := os.ReadFile(*flagOverlay); err == nil && json.Unmarshal(d, &extra) == nil {
			for k, v := range extra {
				ov["Replace"][k] = v
			}
		}
	}
	ovFile := strings.TrimSuffix(file, ".go") + ".overlay.json"
	d, _ := json.Marshal(ov)
	os.WriteFile(ovFile, d, 0o644)
	cmd := exec.Command("go", "test", "-overlay", ovFile, "-vet=off", "-count=1", "-timeout", "60s", "-run", "^"+testName+"$", "./"+strings.TrimPrefix(pkg.Path(), w.Module+"/"))
	cmd.Dir = w.Repo
	cmd.Env = append(os.Environ(), "GOFLAGS=-mod=mod", "GOPROXY=off", "GOSUMDB=off", "GOTOOLCHAIN=local")
	out, _ := cmd.CombinedOutput()
	os.WriteFile(strings.TrimSuffix(file, ".go")+".out.txt", out, 0o644)
	if strings.Contains(string(out), "VIOLATION reproduced") {
		return file, true
	}
	return file, false
}

func hasQualifiedUse(text, name string) bool {
	i := 0
	for {
		j := strings.Index(text[i:], name+".")
		if j < 0 {
			return false
		}
		j += i
		if j == 0 || !isIdentChar(text[j-1]) && text[j-1] != '.' && text[j-1] != '/' && text[j-1] != '"' {
			return true
		}
		i = j + 1
	}
}

// enumExpr: the i-th input as an expression over the enumeration counter gocvCase (bounded search
// for a failing input: byte strings up to length 3 over {0x00,'a','b','.','0',0xff}, a few integers).
func enumExpr(in InputSym, i int, qual func(*types.Package) string) (string, bool) {
	div := 1
	for k := 0; k < i; k++ {
		div *= 12
	}
	idx := fmt.Sprintf("(gocvCase/%d)%%12", div)
	switch t := in.Typ.Underlying().(type) {
	case *types.Basic:
		switch {
		case t.Info()&types.IsBoolean != 0:
			return "(" + idx + ")%2 == 0", true
		case t.Info()&types.IsInteger != 0:
			return fmt.Sprintf("%s(gocvEnumInts[(%s)%%len(gocvEnumInts)])", types.TypeString(in.Typ, qual), idx), true
		case t.Info()&types.IsString != 0:
			return "string(gocvEnumBytes[" + idx + "])", true
		}
	case *types.Slice:
		if b, ok := t.Elem().Underlying().(*types.Basic); ok && b.Kind() == types.Uint8 {
			return "append([]byte(nil), gocvEnumBytes[" + idx + "]...)", true
		}
	}
	return "", false
}
