#!/usr/bin/env python3
# assembles DESIGN.md from doc/*.md, claims.json, properties.jsonl and seeded/*/meta.json
import json,glob,os
V='/verif'
claims=json.load(open(V+'/claims.json'))
props=[json.loads(l) for l in open(V+'/properties.jsonl')]
out=[open(V+'/doc/design_head.md').read()]
out.append('| id | property | status | scope of the claim |\n|---|---|---|---|\n')
for p in props:
    c=claims.get(p['id'],{})
    st='**claimed**' if c.get('claimed') else 'not applicable'
    out.append('| %s | %s | %s | %s |\n'%(p['id'],p['title'],st,c.get('scope','') if c.get('claimed') else ''))
out.append(open(V+'/doc/design_mid.md').read())
out.append('\n## 4. Claimed properties: what is proved, what is assumed, what is not covered\n\n')
for p in props:
    c=claims.get(p['id'],{})
    if not c.get('claimed'): continue
    out.append('### %s %s\n\n**Proved.** %s\n\n**Assumed / not covered.** %s\n\n'%(p['id'],p['title'],c['text'],c.get('note','')))
out.append('\n## 5. Not applicable (MANIFEST `not_applicable`)\n\n')
na=json.load(open(V+'/na_reasons.json')) if os.path.exists(V+'/na_reasons.json') else {}
for p in props:
    c=claims.get(p['id'],{})
    if c.get('claimed'): continue
    r=c.get('reason') or na.get(p['id']) or 'not reached: no contract set written yet that decides it with this technique'
    out.append('* **%s %s** — %s\n'%(p['id'],p['title'],r))
tail=open(V+'/doc/design_tail.md').read()
# seeded table goes before "## 9"
rows=['\n## 8. Seeded changes (produced by fresh sub-agents that saw only the property text and a scratch worktree)\n\n',
      'Each was confirmed by me: it compiles, the existing tests of the touched packages pass, the agent\'s demonstration test fails with it and passes without it (`seeded/<name>/demo_*.txt`), and the property\'s check was run on /repo with the patch applied and reverted straight afterwards (`seeded/<name>/check_output.txt`).\n\n',
      '| seeded change | property | what it does | caught by (first failing obligation) | note |\n|---|---|---|---|---|\n']
notes=json.load(open(V+'/seeded/notes.json')) if os.path.exists(V+'/seeded/notes.json') else {}
for d in sorted(glob.glob(V+'/seeded/*/meta.json')):
    name=d.split('/')[-2]; m=json.load(open(d))
    try: s=json.load(open(d.replace('meta.json','meta.agent.json'))).get('summary','')
    except Exception: s=''
    s=s.replace('|','/').replace('\n',' ')[:220]
    ob=''
    try:
        for l in open(d.replace('meta.json','check_output.txt')):
            if l.startswith('VIOLATION'):
                ob=l.split('obligation=')[1].split()[0]; break
    except Exception: pass
    rows.append('| %s | %s | %s | %s | %s |\n'%(name,m['property'],s,('`%s`'%ob) if ob else ('exit %s'%m['check_exit']),notes.get(name,'')))
_tot=len(rows)-3; _miss=sum(1 for r in rows[3:] if '| exit 0 |' in r); _later=sum(1 for r in rows[3:] if 'missed at first' in r or 'after ' in r.split('|')[-2] and 'exit 0' not in r)
rows.insert(2,'Totals: %d seeded changes in six waves; %d are caught by the current checks (%d of them only after the contracts were broadened in response, as the note column says), %d are not caught (notes say why; none of these was made to pass by weakening anything). `seeded/recheck.sh` re-applies every stored change to /repo, runs the check and reverts; its last full run is `work/seed_recheck.txt`.\n\n'%(_tot,_tot-_miss,_later,_miss))
import subprocess
log=subprocess.check_output(['git','-C','/repo','log','--format=%h %s','--reverse']).decode().splitlines()
fixes=[l for l in log if l.split(' ',1)[1].startswith('fix:')]
verifs=[l for l in log if l.split(' ',1)[1].startswith(('verif:','wip'))]
rows.append('\n### Changes made to /repo\n\nUnguarded repairs (`fix:` commits, one per defect):\n\n')
for l in fixes: rows.append('* `%s` %s\n'%tuple(l.split(' ',1)))
rows.append('\nGuarded additions (%d `verif:` commits): only the comment-only files `<pkg>/contracts_verif.go` (build tag `verif`, no code); they are listed in MANIFEST.hooks.source_commits. No instrumentation hook was needed: the verifier reads the source, it does not run it.\n'%len(verifs))
i=tail.index('## 9. Layout')
out.append(tail[:i]); out.extend(rows); out.append('\n'); out.append(tail[i:])
open(V+'/DESIGN.md','w').write(''.join(out))
print('DESIGN.md written,',sum(len(x) for x in out),'bytes')
