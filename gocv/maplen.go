package main

import (
	"fmt"
	"go/types"
)

// len(map) is an uninterpreted function of the key set; every update, deletion and make adds the
// corresponding ground fact about cardinality.

func (u *Unit) mapLenFn(st *State, mt *types.Map) string {
	f := "maplen_" + mangle(u.typeKey(mt))
	_, dh, _, _ := u.mapHeaps(st, mt)
	u.declareOnce(f, fmt.Sprintf("(declare-fun %s (%s) Int)", f, arrayElem(dh.Sort)))
	return f
}

// mapLenTerm: len(m) in state st.
func (u *Unit) mapLenTerm(st *State, m Term, mt *types.Map) Term {
	f := u.mapLenFn(st, mt)
	_, dh, _, _ := u.mapHeaps(st, mt)
	r := u.def(ite(eq(m, intLit(0)), intLit(0), app("Int", f, sel(dh, m))))
	u.assume(tTrue, app("Bool", ">=", r, intLit(0)))
	return r
}

// mapLenStep: the key set changed from before to after by setting key k to present/absent.
func (u *Unit) mapLenStep(st *State, mt *types.Map, before, after, k Term, present bool) {
	f := u.mapLenFn(st, mt)
	lb, la := app("Int", f, before), app("Int", f, after)
	had := sel(before, k)
	if present {
		u.assume(tTrue, eq(la, ite(had, lb, app("Int", "+", lb, intLit(1)))))
	} else {
		u.assume(tTrue, eq(la, ite(had, app("Int", "-", lb, intLit(1)), lb)))
	}
	u.assume(tTrue, and(app("Bool", ">=", lb, intLit(0)), app("Bool", ">=", la, intLit(0))))
	// a non-empty set has a positive length
	u.assume(tTrue, implies(had, app("Bool", ">=", lb, intLit(1))))
}
