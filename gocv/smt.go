package main

import (
	"fmt"
	"hash/fnv"
	"strings"
	"sync"
)

// Term is an SMT-LIB expression together with its sort.
type Term struct {
	S    string
	Sort string
}

// known structure of a term (ite / store / const array / mkslice), used to simplify reads. Kept in
// a side table keyed by the term text; symbol names are unique per unit (see Unit.sym).
type tstruct struct {
	kind byte // 'i' ite(c,a,b)  's' store(a,b,c)  'k' const array of a  'm' mkslice(a,b,c,d)
	a, b, c, d Term
}

var structTab sync.Map

func (t Term) st() *tstruct {
	if v, ok := structTab.Load(t.S); ok {
		return v.(*tstruct)
	}
	return nil
}

func withSt(t Term, s *tstruct) Term {
	structTab.Store(t.S, s)
	return t
}

func (t Term) String() string { return t.S }

var (
	tTrue  = Term{"true", "Bool"}
	tFalse = Term{"false", "Bool"}
)

func intLit(n int64) Term {
	if n < 0 {
		return Term{fmt.Sprintf("(- %d)", -n), "Int"}
	}
	return Term{fmt.Sprintf("%d", n), "Int"}
}

func bigLit(s string) Term {
	if strings.HasPrefix(s, "-") {
		return Term{"(- " + s[1:] + ")", "Int"}
	}
	return Term{s, "Int"}
}

func boolLit(b bool) Term {
	if b {
		return tTrue
	}
	return tFalse
}

func smallLit(t Term) (int64, bool) {
	s := t.S
	neg := false
	if strings.HasPrefix(s, "(- ") && strings.HasSuffix(s, ")") && isIntLit(s[3:len(s)-1]) {
		neg, s = true, s[3:len(s)-1]
	}
	if !isIntLit(s) || len(s) > 15 {
		return 0, false
	}
	var n int64
	fmt.Sscan(s, &n)
	if neg {
		n = -n
	}
	return n, true
}

func app(sort, op string, args ...Term) Term {
	// light constant folding: keeps generated terms small and lets reads resolve statically
	if sort == "Int" && len(args) == 2 && (op == "+" || op == "-" || op == "*") {
		x, xok := smallLit(args[0])
		y, yok := smallLit(args[1])
		switch {
		case xok && yok:
			switch op {
			case "+":
				return intLit(x + y)
			case "-":
				return intLit(x - y)
			case "*":
				if x < 1<<30 && x > -(1<<30) && y < 1<<30 && y > -(1<<30) {
					return intLit(x * y)
				}
			}
		case yok && y == 0 && (op == "+" || op == "-"):
			return args[0]
		case xok && x == 0 && op == "+":
			return args[1]
		case yok && y == 1 && op == "*":
			return args[0]
		case xok && x == 1 && op == "*":
			return args[1]
		}
	}
	if sort == "Bool" && op == "=" && len(args) == 2 && args[0].S == args[1].S {
		return tTrue
	}
	if sort == "Bool" && len(args) == 2 {
		x, xok := smallLit(args[0])
		y, yok := smallLit(args[1])
		if xok && yok {
			switch op {
			case "<=":
				return boolLit(x <= y)
			case "<":
				return boolLit(x < y)
			case ">=":
				return boolLit(x >= y)
			case ">":
				return boolLit(x > y)
			case "=":
				return boolLit(x == y)
			}
		}
	}
	if sort == "Bool" && len(args) == 2 && isIntLit(args[0].S) && isIntLit(args[1].S) && len(args[0].S) < 18 && len(args[1].S) < 18 {
		var x, y int64
		fmt.Sscan(args[0].S, &x)
		fmt.Sscan(args[1].S, &y)
		r, known := false, true
		switch op {
		case "<=":
			r = x <= y
		case "<":
			r = x < y
		case ">=":
			r = x >= y
		case ">":
			r = x > y
		case "=":
			r = x == y
		default:
			known = false
		}
		if known {
			if r {
				return tTrue
			}
			return tFalse
		}
	}
	var b strings.Builder
	b.WriteString("(")
	b.WriteString(op)
	for _, a := range args {
		b.WriteString(" ")
		b.WriteString(a.S)
	}
	b.WriteString(")")
	return Term{b.String(), sort}
}

func and(ts ...Term) Term {
	var keep []Term
	for _, t := range ts {
		if t.S == "true" {
			continue
		}
		if t.S == "false" {
			return tFalse
		}
		keep = append(keep, t)
	}
	switch len(keep) {
	case 0:
		return tTrue
	case 1:
		return keep[0]
	}
	return app("Bool", "and", keep...)
}

func or(ts ...Term) Term {
	var keep []Term
	for _, t := range ts {
		if t.S == "false" {
			continue
		}
		if t.S == "true" {
			return tTrue
		}
		keep = append(keep, t)
	}
	switch len(keep) {
	case 0:
		return tFalse
	case 1:
		return keep[0]
	}
	return app("Bool", "or", keep...)
}

func not(t Term) Term {
	if t.S == "true" {
		return tFalse
	}
	if t.S == "false" {
		return tTrue
	}
	return app("Bool", "not", t)
}

func implies(a, b Term) Term {
	if a.S == "true" {
		return b
	}
	if a.S == "false" || b.S == "true" {
		return tTrue
	}
	return app("Bool", "=>", a, b)
}

func ite(c, a, b Term) Term {
	if c.S == "true" {
		return a
	}
	if c.S == "false" {
		return b
	}
	if a.S == b.S {
		return a
	}
	t := app(a.Sort, "ite", c, a, b)
	if strings.HasPrefix(a.Sort, "(Array ") || a.Sort == "Slice" {
		withSt(t, &tstruct{kind: 'i', a: c, b: a, c: b})
	}
	return t
}

// sel reads an array; reads over stores, ites and constant arrays are resolved here so that the
// solvers see selects on base heaps only (keeps E-matching effective).
func sel(arr, idx Term) Term {
	es := arrayElem(arr.Sort)
	if s := arr.st(); s != nil {
		switch s.kind {
		case 'i':
			return ite(s.a, sel(s.b, idx), sel(s.c, idx))
		case 's':
			if s.b.S == idx.S {
				return s.c
			}
			if isIntLit(s.b.S) && isIntLit(idx.S) {
				return sel(s.a, idx)
			}
			return ite(eq(idx, s.b), s.c, sel(s.a, idx))
		case 'k':
			return s.a
		case 'A':
			// heap after a call that only allocates: unchanged below the old allocation counter
			return ite(app("Bool", "<", idx, s.a), sel(s.b, idx), app(es, "select", arr, idx))
		}
	}
	return app(es, "select", arr, idx)
}

func isIntLit(s string) bool {
	if s == "" {
		return false
	}
	for _, r := range s {
		if r < '0' || r > '9' {
			return false
		}
	}
	return true
}

func sto(arr, idx, v Term) Term {
	t := app(arr.Sort, "store", arr, idx, v)
	withSt(t, &tstruct{kind: 's', a: arr, b: idx, c: v})
	return t
}

// constArrDecls: constant arrays whose element is not an SMT value (uninterpreted sorts) cannot be
// written with (as const ...) in cvc5; they become named constants with a defining axiom.
var constArrDecls sync.Map

func constArray(sort string, v Term) Term {
	if strings.Contains(v.S, "inil") || strings.Contains(v.S, "bempty") || strings.Contains(v.S, "opaque0") || strings.Contains(v.S, "constarr_") {
		h := fnv.New32a()
		h.Write([]byte(v.S))
		name := fmt.Sprintf("constarr_%s_%x", mangleSort(sort), h.Sum32())
		_, es := splitArraySort(sort)
		ks, _ := splitArraySort(sort)
		_ = es
		constArrDecls.Store(name, fmt.Sprintf("(declare-const %s %s)\n(assert (forall ((i %s)) (! (= (select %s i) %s) :pattern ((select %s i)))))", name, sort, ks, name, v.S, name))
		return withSt(Term{S: name, Sort: sort}, &tstruct{kind: 'k', a: v})
	}
	return withSt(Term{S: fmt.Sprintf("((as const %s) %s)", sort, v.S), Sort: sort}, &tstruct{kind: 'k', a: v})
}

func mangleSort(s string) string {
	var b strings.Builder
	for _, r := range s {
		if r >= 'a' && r <= 'z' || r >= 'A' && r <= 'Z' || r >= '0' && r <= '9' {
			b.WriteRune(r)
		} else if r != ' ' && r != '(' && r != ')' {
			b.WriteRune('_')
		}
	}
	return b.String()
}

func mkSlice(arr, off, ln, cp Term) Term {
	t := app("Slice", "mkslice", arr, off, ln, cp)
	withSt(t, &tstruct{kind: 'm', a: arr, b: off, c: ln, d: cp})
	return t
}

func sliceField(t Term, f string) Term {
	if t.S == "nilslice" {
		return intLit(0)
	}
	if s := t.st(); s != nil {
		switch s.kind {
		case 'm':
			switch f {
			case "sarr":
				return s.a
			case "soff":
				return s.b
			case "slen":
				return s.c
			default:
				return s.d
			}
		case 'i':
			return ite(s.a, sliceField(s.b, f), sliceField(s.c, f))
		}
	}
	return app("Int", f, t)
}

func sArr(t Term) Term { return sliceField(t, "sarr") }
func sOff(t Term) Term { return sliceField(t, "soff") }
func sLen(t Term) Term { return sliceField(t, "slen") }
func sCap(t Term) Term { return sliceField(t, "scap") }

func eq(a, b Term) Term {
	if a.S == b.S {
		return tTrue
	}
	if a.Sort == "Bytes" && b.Sort == "Bytes" {
		return app("Bool", "beq", a, b)
	}
	return app("Bool", "=", a, b)
}


// arrayElem returns the element sort of "(Array K V)".
func arrayElem(sort string) string {
	k, v := splitArraySort(sort)
	_ = k
	return v
}

func splitArraySort(sort string) (string, string) {
	if !strings.HasPrefix(sort, "(Array ") {
		panic("not an array sort: " + sort)
	}
	body := sort[len("(Array ") : len(sort)-1]
	// first sort token
	depth := 0
	for i := 0; i < len(body); i++ {
		switch body[i] {
		case '(':
			depth++
		case ')':
			depth--
		case ' ':
			if depth == 0 {
				return body[:i], body[i+1:]
			}
		}
	}
	panic("bad array sort: " + sort)
}

func arraySort(k, v string) string { return "(Array " + k + " " + v + ")" }

const prelude = `
; ---- gocv prelude (every axiom here is part of the trusted base) ----
(declare-sort Bytes 0)
(declare-fun blen (Bytes) Int)
(declare-fun barr (Bytes) (Array Int Int))
(define-fun bat ((b Bytes) (i Int)) Int (select (barr b) i))
(assert (forall ((b Bytes)) (! (>= (blen b) 0) :pattern ((blen b)))))
(assert (forall ((b Bytes) (i Int)) (! (and (<= 0 (select (barr b) i)) (<= (select (barr b) i) 255)) :pattern ((select (barr b) i)))))
; extensional equality of byte strings
(declare-fun bdiff (Bytes Bytes) Int)
(define-fun beq ((a Bytes) (b Bytes)) Bool
  (and (= (blen a) (blen b))
       (=> (and (<= 0 (bdiff a b)) (< (bdiff a b) (blen a))) (= (bat a (bdiff a b)) (bat b (bdiff a b))))))
(assert (forall ((a Bytes) (b Bytes)) (! (=> (beq a b) (= a b)) :pattern ((bdiff a b)))))
(declare-const bempty Bytes)
(assert (= (blen bempty) 0))
; concatenation and sub-string
(declare-fun bcat (Bytes Bytes) Bytes)
(assert (forall ((a Bytes) (b Bytes)) (! (= (blen (bcat a b)) (+ (blen a) (blen b))) :pattern ((bcat a b)))))
(assert (forall ((a Bytes) (b Bytes) (i Int)) (! (=> (and (<= 0 i) (< i (+ (blen a) (blen b)))) (= (select (barr (bcat a b)) i) (ite (< i (blen a)) (select (barr a) i) (select (barr b) (- i (blen a)))))) :pattern ((select (barr (bcat a b)) i)))))
(declare-fun bsub (Bytes Int Int) Bytes)
(assert (forall ((a Bytes) (i Int) (j Int)) (! (=> (and (<= 0 i) (<= i j)) (= (blen (bsub a i j)) (- j i))) :pattern ((bsub a i j)))))
(assert (forall ((a Bytes) (i Int) (j Int) (m Int)) (! (=> (and (<= 0 m) (< m (- j i))) (= (select (barr (bsub a i j)) m) (select (barr a) (+ i m)))) :pattern ((select (barr (bsub a i j)) m)))))
(define-fun bhasprefix ((k Bytes) (p Bytes)) Bool
  (and (>= (blen k) (blen p)) (forall ((m Int)) (=> (and (<= 0 m) (< m (blen p))) (= (bat k m) (bat p m))))))
; lexicographic order by witness position
(define-fun blexlt ((a Bytes) (b Bytes)) Bool
  (exists ((j Int)) (and (<= 0 j)
     (forall ((m Int)) (=> (and (<= 0 m) (< m j)) (= (bat a m) (bat b m))))
     (or (and (= j (blen a)) (< j (blen b))) (and (< j (blen a)) (< j (blen b)) (< (bat a j) (bat b j)))))))
(define-fun blexle ((a Bytes) (b Bytes)) Bool (or (beq a b) (blexlt a b)))
; slices: (backing array ref, offset, len, cap); memory per element sort
(declare-datatypes ((Slice 0)) (((mkslice (sarr Int) (soff Int) (slen Int) (scap Int)))))
(define-fun nilslice () Slice (mkslice 0 0 0 0))
; the byte-string value of a []byte in a given heap is introduced per use by the generator
; (Unit.bytesOf): no axiom here quantifies over arrays, which would switch off model-based
; quantifier instantiation in z3
; interfaces: dynamic type tag + boxed payload
(declare-sort Iface 0)
(declare-fun itag (Iface) Int)
(declare-const inil Iface)
(assert (= (itag inil) 0))
(assert (forall ((x Iface)) (! (=> (= (itag x) 0) (= x inil)) :pattern ((itag x)))))
; identity of the object behind an interface value (the pointer it boxes; 0 for non-pointers)
(declare-fun irefof (Iface) Int)
(assert (= (irefof inil) 0))
; opaque values of types gocv does not look into
(declare-sort Opaque 0)
(declare-const opaque0 Opaque)
; Go truncated division / remainder
(define-fun tdiv ((x Int) (y Int)) Int
  (ite (> y 0) (ite (>= x 0) (div x y) (- (div (- x) y)))
               (ite (>= x 0) (- (div x (- y))) (div (- x) (- y)))))
(define-fun tmod ((x Int) (y Int)) Int (- x (* y (tdiv x y))))
(define-fun imin ((x Int) (y Int)) Int (ite (<= x y) x y))
(define-fun imax ((x Int) (y Int)) Int (ite (>= x y) x y))
; uninterpreted bit operations (only constant masks/shifts are interpreted)
(declare-fun bitand (Int Int) Int)
(declare-fun bitor (Int Int) Int)
(declare-fun bitxor (Int Int) Int)
(declare-fun bitshl (Int Int) Int)
(declare-fun bitshr (Int Int) Int)
(declare-fun bitandnot (Int Int) Int)
(assert (forall ((x Int) (y Int)) (! (=> (and (>= x 0) (>= y 0)) (and (>= (bitand x y) 0) (<= (bitand x y) x) (<= (bitand x y) y))) :pattern ((bitand x y)))))
(assert (forall ((x Int) (y Int)) (! (=> (and (>= x 0) (>= y 0)) (and (>= (bitor x y) x) (>= (bitor x y) y))) :pattern ((bitor x y)))))
(assert (forall ((x Int) (y Int)) (! (=> (and (>= x 0) (>= y 0)) (and (>= (bitshr x y) 0) (<= (bitshr x y) x))) :pattern ((bitshr x y)))))
; ---- end prelude ----
`
