package main

import (
	"fmt"
	"go/constant"
	"os"
	"go/token"
	"go/types"
	"sort"
	"strings"

	"golang.org/x/tools/go/ssa"
)

// Frame is one activation (the function under proof or an inlined callee).
type Frame struct {
	fn      *ssa.Function
	vals    map[ssa.Value]Val
	cells   map[*ssa.Alloc]*Cell
	byName  map[string][]*Cell
	reach   map[*ssa.BasicBlock]Term
	out     map[*ssa.BasicBlock]*State
	loops   []*loopInfo
	loopOf  map[*ssa.BasicBlock]*loopInfo // header -> loop
	rets    []retInfo
	entry   *State
	params  map[string]Val
	parent  *Frame
	ct      *Contract
	top     bool
	recvName string
	boxed    []boxedLocal // escaping local variables (heap cells) of this activation
	goWritten map[*ssa.Alloc]bool // locals assigned by goroutines this activation spawned
	goUnknown bool                // a goroutine was spawned whose body is not known
	goAll     bool                // a spawned goroutine may write any heap
	goHeaps   map[string]bool     // heaps the spawned goroutines may write (when !goAll)
}

type retInfo struct {
	reach   Term
	results []Val
	st      *State
	blk     *ssa.BasicBlock
}

type loopInfo struct {
	header  *ssa.BasicBlock
	blocks  map[*ssa.BasicBlock]bool
	ordinal int
	pos     token.Pos
	spec    *LoopSpec
	hdrState *State // state at header after havoc (for decreases)
	pre      *State // state in which the loop was entered (spec: atentry(e))
	measure0 Term
}

type unsupported struct{ msg string }

func (u *Unit) unsupportedf(format string, args ...interface{}) {
	panic(unsupported{fmt.Sprintf(format, args...)})
}

func (u *Unit) where(instr ssa.Instruction) string {
	if instr == nil {
		return ""
	}
	p := instr.Pos()
	if !p.IsValid() {
		return ""
	}
	pos := u.W.Fset.Position(p)
	return fmt.Sprintf("%s:%d", strings.TrimPrefix(pos.Filename, u.W.Repo+"/"), pos.Line)
}

// ---- cells / escape classification --------------------------------------------------------------

func allocIsCell(a *ssa.Alloc) bool {
	var ok func(v ssa.Value, depth int) bool
	ok = func(v ssa.Value, depth int) bool {
		refs := v.Referrers()
		if refs == nil {
			return true
		}
		for _, r := range *refs {
			switch i := r.(type) {
			case *ssa.Store:
				if i.Val == v { // the address itself is stored somewhere
					return false
				}
			case *ssa.UnOp:
				if i.Op != token.MUL {
					return false
				}
			case *ssa.FieldAddr:
				if !ok(i, depth+1) {
					return false
				}
			case *ssa.IndexAddr:
				if i.X != v || !ok(i, depth+1) {
					return false
				}
			case *ssa.DebugRef:
			default:
				return false
			}
		}
		return true
	}
	return ok(a, 0)
}

// ---- running a function -------------------------------------------------------------------------

func (u *Unit) newFrame(fn *ssa.Function, parent *Frame) *Frame {
	fr := &Frame{fn: fn, vals: map[ssa.Value]Val{}, cells: map[*ssa.Alloc]*Cell{}, byName: map[string][]*Cell{},
		reach: map[*ssa.BasicBlock]Term{}, out: map[*ssa.BasicBlock]*State{}, loopOf: map[*ssa.BasicBlock]*loopInfo{},
		params: map[string]Val{}, parent: parent}
	return fr
}

// findLoops computes natural loops (back edge = edge to a dominator).
func (u *Unit) findLoops(fr *Frame) {
	fn := fr.fn
	byHeader := map[*ssa.BasicBlock]*loopInfo{}
	for _, b := range fn.Blocks {
		for _, s := range b.Succs {
			if s.Dominates(b) {
				li := byHeader[s]
				if li == nil {
					li = &loopInfo{header: s, blocks: map[*ssa.BasicBlock]bool{s: true}}
					byHeader[s] = li
				}
				// natural loop of back edge b -> s
				stack := []*ssa.BasicBlock{b}
				for len(stack) > 0 {
					x := stack[len(stack)-1]
					stack = stack[:len(stack)-1]
					if li.blocks[x] {
						continue
					}
					li.blocks[x] = true
					stack = append(stack, x.Preds...)
				}
			}
		}
	}
	for _, li := range byHeader {
		min := token.Pos(0)
		for b := range li.blocks {
			for _, in := range b.Instrs {
				if p := in.Pos(); p.IsValid() && (min == 0 || p < min) {
					min = p
				}
			}
		}
		li.pos = min
		fr.loops = append(fr.loops, li)
	}
	sort.Slice(fr.loops, func(i, j int) bool {
		if fr.loops[i].pos != fr.loops[j].pos {
			return fr.loops[i].pos < fr.loops[j].pos
		}
		return fr.loops[i].header.Index < fr.loops[j].header.Index
	})
	for i, li := range fr.loops {
		li.ordinal = i
		fr.loopOf[li.header] = li
		if fr.ct != nil {
			li.spec = fr.ct.Loops[i]
		}
	}
}

func isBackEdge(from, to *ssa.BasicBlock) bool { return to.Dominates(from) }

// topoOrder: reverse post-order ignoring back edges.
func topoOrder(fn *ssa.Function) []*ssa.BasicBlock {
	seen := map[*ssa.BasicBlock]bool{}
	var post []*ssa.BasicBlock
	var dfs func(b *ssa.BasicBlock)
	dfs = func(b *ssa.BasicBlock) {
		seen[b] = true
		for _, s := range b.Succs {
			if isBackEdge(b, s) || seen[s] {
				continue
			}
			dfs(s)
		}
		post = append(post, b)
	}
	dfs(fn.Blocks[0])
	for i, j := 0, len(post)-1; i < j; i, j = i+1, j-1 {
		post[i], post[j] = post[j], post[i]
	}
	return post
}

// runFunction symbolically executes fn from state st with the given argument values.
// The returns are collected in fr.rets.
func (u *Unit) runFunction(fr *Frame, args []Val, st *State, reach Term) {
	fn := fr.fn
	if len(fn.Blocks) == 0 {
		u.unsupportedf("function %s has no body", fn.Name())
	}
	for i, p := range fn.Params {
		fr.vals[p] = args[i]
		fr.params[p.Name()] = args[i]
	}
	u.findLoops(fr)
	order := topoOrder(fn)
	fr.entry = st.clone()
	for _, b := range order {
		var bst *State
		var breach Term
		if b == fn.Blocks[0] {
			bst, breach = st, reach
		} else {
			bst, breach = u.mergePreds(fr, b)
		}
		if bst == nil {
			continue
		}
		if li := fr.loopOf[b]; li != nil {
			bst, breach = u.enterLoop(fr, li, bst, breach)
		}
		fr.reach[b] = breach
		u.execBlock(fr, b, bst, breach)
	}
}

type edgeIn struct {
	cond Term
	st   *State
	pred *ssa.BasicBlock
}

func (u *Unit) edgeCond(fr *Frame, p, b *ssa.BasicBlock) Term {
	r := fr.reach[p]
	if n := len(p.Instrs); n > 0 {
		if iff, ok := p.Instrs[n-1].(*ssa.If); ok {
			c := u.value(fr, iff.Cond).T // (a constant condition is not in fr.vals)
			if p.Succs[0] == b && p.Succs[1] == b {
				return r
			}
			if p.Succs[0] == b {
				return and(r, c)
			}
			return and(r, not(c))
		}
	}
	return r
}

func (u *Unit) mergePreds(fr *Frame, b *ssa.BasicBlock) (*State, Term) {
	var ins []edgeIn
	for _, p := range b.Preds {
		if isBackEdge(p, b) {
			continue
		}
		ps, ok := fr.out[p]
		if !ok || ps == nil {
			continue
		}
		c := u.edgeCond(fr, p, b)
		if c.S == "false" {
			continue
		}
		ins = append(ins, edgeIn{u.def(c), ps, p})
	}
	if len(ins) == 0 {
		return nil, tFalse
	}
	var conds []Term
	for _, e := range ins {
		conds = append(conds, e.cond)
	}
	reach := u.def(or(conds...))
	// phi nodes
	for _, in := range b.Instrs {
		phi, ok := in.(*ssa.Phi)
		if !ok {
			break
		}
		var acc Val
		first := true
		for k := len(ins) - 1; k >= 0; k-- {
			var idx int
			for j, p := range b.Preds {
				if p == ins[k].pred {
					idx = j
				}
			}
			v := u.value(fr, phi.Edges[idx])
			if first {
				acc, first = v, false
			} else {
				acc = u.mergeVal(ins[k].cond, v, acc)
			}
		}
		fr.vals[phi] = acc
	}
	if len(ins) == 1 {
		return ins[0].st.clone(), reach
	}
	return u.mergeStates(ins), reach
}

func (u *Unit) mergeStates(ins []edgeIn) *State {
	res := ins[len(ins)-1].st.clone()
	for k := len(ins) - 2; k >= 0; k-- {
		e := ins[k]
		// cells
		for c, v := range e.st.cells {
			if rv, ok := res.cells[c]; ok {
				res.cells[c] = u.mergeVal(e.cond, v, rv)
			} else {
				res.cells[c] = v
			}
		}
		// heaps: a heap one side has not looked at yet has, on that side, the version its epoch
		// gives it (entry version, or the unknown version after the last arbitrary call)
		var hnames []string
		for h := range e.st.heaps {
			hnames = append(hnames, h)
		}
		for h := range res.heaps {
			if _, ok := e.st.heaps[h]; !ok {
				hnames = append(hnames, h)
			}
		}
		sort.Strings(hnames)
		for _, h := range hnames {
			if _, known := u.heapSort[h]; !known {
				if t, ok := e.st.heaps[h]; ok {
					res.heaps[h] = t
				}
				continue
			}
			t, rt := u.heapNow(e.st, h), u.heapNow(res, h)
			if rt.S != t.S {
				res.heaps[h] = u.def(ite(e.cond, t, rt))
			}
		}
		// version a not-yet-looked-at heap has on each side: its pending tag, else the side's epoch
		// ("" = entry version); equal versions stay, different ones become a new unknown version
		resEpoch0 := res.epoch
		eff := func(p map[string]string, epoch, h string) string {
			if t, ok := p[h]; ok {
				return t
			}
			return epoch
		}
		if res.epoch != e.st.epoch {
			res.epoch = u.sym("ep")
		}
		var phs []string
		for h := range e.st.pending {
			phs = append(phs, h)
		}
		for h := range res.pending {
			if _, ok := e.st.pending[h]; !ok {
				phs = append(phs, h)
			}
		}
		sort.Strings(phs)
		for _, h := range phs {
			if res.pending == nil {
				res.pending = map[string]string{}
			}
			te, tr := eff(e.st.pending, e.st.epoch, h), eff(res.pending, resEpoch0, h)
			if te == tr {
				res.pending[h] = te
			} else {
				res.pending[h] = u.sym("hv")
			}
		}
		if res.alloc.S != e.st.alloc.S {
			res.alloc = u.def(ite(e.cond, e.st.alloc, res.alloc))
		}
		for k, v := range e.st.callRes {
			if rv, ok := res.callRes[k]; ok {
				res.callRes[k] = u.mergeValSafe(e.cond, v, rv)
			} else {
				res.callRes[k] = v
			}
		}
		for g, t := range e.st.ghostCalled {
			rt, ok := res.ghostCalled[g]
			if !ok {
				rt = tFalse
			}
			res.ghostCalled[g] = u.def(ite(e.cond, t, rt))
		}
		for g, rt := range res.ghostCalled {
			if _, ok := e.st.ghostCalled[g]; !ok {
				res.ghostCalled[g] = u.def(ite(e.cond, tFalse, rt))
			}
		}
		// defers: keep the longer list, conditions already carry path information
		if len(e.st.defers) > len(res.defers) {
			res.defers = append([]deferred(nil), e.st.defers...)
		}
	}
	return res
}

func (u *Unit) mergeVal(c Term, a, b Val) Val {
	if a.Loc != nil || b.Loc != nil {
		if a.Loc == b.Loc {
			return a
		}
		if a.Loc != nil && b.Loc != nil && sameLoc(a.Loc, b.Loc) {
			return a
		}
		// different addresses on the two paths: fall back to terms
		at, aok := u.locToTerm(a)
		bt, bok := u.locToTerm(b)
		if aok && bok {
			return Val{T: u.def(ite(c, at, bt)), Typ: a.Typ}
		}
		u.note("merge of distinct local addresses abstracted to an unknown pointer")
		return Val{T: u.fresh("ptr", "Int"), Typ: a.Typ}
	}
	if a.Tup != nil || b.Tup != nil {
		n := len(a.Tup)
		r := Val{Typ: a.Typ}
		for i := 0; i < n && i < len(b.Tup); i++ {
			r.Tup = append(r.Tup, u.mergeVal(c, a.Tup[i], b.Tup[i]))
		}
		return r
	}
	if a.T.S == b.T.S {
		return a
	}
	if a.T.Sort != b.T.Sort {
		if a.T.S == "" {
			return b
		}
		if b.T.S == "" {
			return a
		}
		u.unsupportedf("merge of different sorts %s / %s", a.T.Sort, b.T.Sort)
	}
	r := Val{T: u.def(ite(c, a.T, b.T)), Typ: a.Typ}
	if a.Fn != nil && a.Fn == b.Fn {
		r.Fn, r.Bindings = a.Fn, a.Bindings
	}
	return r
}

// mergeValSafe merges bookkeeping values; anything that cannot be merged keeps the later value.
func (u *Unit) mergeValSafe(c Term, a, b Val) (r Val) {
	defer func() {
		if x := recover(); x != nil {
			r = b
		}
	}()
	if a.Loc != nil || b.Loc != nil || len(a.Tup) != len(b.Tup) {
		return b
	}
	return u.mergeVal(c, a, b)
}

func sameLoc(a, b *Loc) bool {
	if a.Kind != b.Kind {
		return false
	}
	switch a.Kind {
	case LCell:
		return a.Cell == b.Cell
	case LField:
		return a.Base.S == b.Base.S && a.SKey == b.SKey && a.Field == b.Field
	case LElem:
		return a.Base.S == b.Base.S && a.Index.S == b.Index.S
	case LBox, LStruct:
		return a.Base.S == b.Base.S
	case LGlobal:
		return a.Global == b.Global
	case LSub:
		return a.IsIdx == b.IsIdx && a.Field == b.Field && a.Index.S == b.Index.S && sameLoc(a.Parent, b.Parent)
	}
	return false
}

// locToTerm converts an address value into a pointer term where that is meaningful.
func (u *Unit) locToTerm(v Val) (Term, bool) {
	if v.Loc == nil {
		return v.T, v.T.S != ""
	}
	switch v.Loc.Kind {
	case LBox, LStruct:
		return v.Loc.Base, true
	case LField:
		f := "faddr_" + mangle(v.Loc.SKey) + "_" + fmt.Sprint(v.Loc.Field)
		u.declareOnce(f, fmt.Sprintf("(declare-fun %s (Int) Int)", f))
		return app("Int", f, v.Loc.Base), true
	}
	return Term{}, false
}

func (u *Unit) declareOnce(name, decl string) {
	for _, d := range u.decls {
		if d == decl {
			return
		}
	}
	u.decls = append(u.decls, decl)
}

// ---- loops --------------------------------------------------------------------------------------

func (u *Unit) enterLoop(fr *Frame, li *loopInfo, st *State, reach Term) (*State, Term) {
	u.scopeBlk = li.header
	li.pre = st.clone()
	u.curLoopPre = li.pre
	u.comment(fmt.Sprintf("loop %d of %s", li.ordinal, fr.fn.Name()))
	// 1. invariants hold on entry
	if li.spec != nil {
		for i, inv := range li.spec.Invariants {
			f, ok := u.evalLoopClause(inv.Expr, u.loopEnv(fr, st))
			if !ok {
				continue
			}
			u.curWhere = u.W.Fset.Position(li.pos).String()
			u.oblige("inv", reach, f, fmt.Sprintf("loop%d.inv[%d].init", li.ordinal, i), "", inv.Src)
		}
	}
	// 2. havoc what the loop writes
	pre := st.clone()
	cells, heaps, all := u.loopWrites(fr, li)
	for _, c := range cells {
		old := st.cells[c]
		nv := u.freshVal(st, "loop_"+c.Name, c.Typ)
		st.cells[c] = nv
		_ = old
	}
	allocOnly := false
	if !all {
		var hs []string
		for _, h := range heaps {
			if h == "@allocates" {
				allocOnly = true
			} else {
				hs = append(hs, h)
			}
		}
		heaps = hs
	}
	if all {
		u.havocHeaps(st, nil, "loop")
	} else {
		if len(heaps) > 0 {
			u.havocHeaps(st, heaps, "loop")
		}
		if allocOnly {
			// callees in the loop only allocate: every other heap keeps its content at the references
			// that existed before the loop
			u.havocAllocatesOnly(st, pre)
			prevA := st.alloc
			st.alloc = u.fresh("alloc", "Int")
			u.assume(tTrue, app("Bool", ">=", st.alloc, prevA))
		}
	}
	u.havocLoopCalls(fr, li, st, reach)
	// 3. auto invariants for monotone counters
	u.autoInvariants(fr, li, pre, st, reach)
	// 4. assume user invariants
	if li.spec != nil {
		for _, inv := range li.spec.Invariants {
			if f, ok := u.evalLoopClause(inv.Expr, u.loopEnv(fr, st)); ok {
				u.assume(reach, f)
			}
		}
		if li.spec.Decreases != nil {
			if m, ok := u.evalLoopMeasure(li.spec.Decreases.Expr, u.loopEnv(fr, st)); ok {
				li.measure0 = u.def(m)
			}
		}
	}
	li.hdrState = st.clone()
	return st, reach
}

func (u *Unit) loopEnv(fr *Frame, st *State) *Env {
	return &Env{u: u, fr: fr, st: st, old: fr.entry, vars: map[string]Val{}, locals: true}
}

func (u *Unit) backEdge(fr *Frame, li *loopInfo, st *State, cond Term) {
	if li.spec == nil {
		return
	}
	u.scopeBlk = li.header
	u.curLoopPre = li.pre
	for i, inv := range li.spec.Invariants {
		f, ok := u.evalLoopClause(inv.Expr, u.loopEnv(fr, st))
		if !ok {
			continue
		}
		u.curWhere = u.W.Fset.Position(li.pos).String()
		u.oblige("inv", cond, f, fmt.Sprintf("loop%d.inv[%d].preserve", li.ordinal, i), "", inv.Src)
	}
	if li.spec.Decreases != nil && li.measure0.S != "" {
		m1, ok := u.evalLoopMeasure(li.spec.Decreases.Expr, u.loopEnv(fr, st))
		if !ok {
			return
		}
		f := and(app("Bool", "<", m1, li.measure0), app("Bool", ">=", li.measure0, intLit(0)))
		u.oblige("dec", cond, f, fmt.Sprintf("loop%d.decreases", li.ordinal), "", li.spec.Decreases.Src)
	}
}

// loopWrites: local cells and heaps that may be written inside the loop.
func (u *Unit) loopWrites(fr *Frame, li *loopInfo) (cells []*Cell, heaps []string, all bool) {
	cset := map[*Cell]bool{}
	hset := map[string]bool{}
	for b := range li.blocks {
		for _, in := range b.Instrs {
			switch i := in.(type) {
			case *ssa.Store:
				u.classifyWrite(fr, i.Addr, cset, hset, &all)
			case *ssa.MapUpdate:
				if m, ok := i.Map.Type().Underlying().(*types.Map); ok {
					k := u.typeKey(m.Key()) + "|" + u.typeKey(m.Elem())
					hset["MD:"+k], hset["MV:"+k] = true, true
				}
			case *ssa.Alloc:
				// a cell allocated inside the loop is re-initialised on every iteration
				if c, ok := fr.cells[i]; ok {
					cset[c] = true
				}
			case ssa.CallInstruction:
				if _, isDefer := in.(*ssa.Defer); isDefer {
					continue
				}
				switch u.callEffect(fr, i.Common()) {
				case effAll:
					all = true
					if os.Getenv("GOCV_DEBUG") != "" {
						fmt.Fprintf(os.Stderr, "loop %d of %s: arbitrary effects because of call %s\n", li.ordinal, fr.fn.Name(), u.calleeName(i.Common()))
					}
				case effNone:
				default:
					for _, h := range u.callFrameHeaps(fr, i.Common()) {
						hset[h] = true
					}
				}
				// cells whose address is passed to the callee
				for _, a := range i.Common().Args {
					if al, ok := a.(*ssa.Alloc); ok {
						if c, ok := fr.cells[al]; ok {
							cset[c] = true
						}
					}
				}
			case *ssa.Select, *ssa.Go:
				all = true
			case *ssa.UnOp:
				if i.Op == token.ARROW {
					all = true
				}
			case *ssa.Next:
				if r, ok := i.Iter.(*ssa.Range); ok && !i.IsString {
					if _, isMap := r.X.Type().Underlying().(*types.Map); isMap {
						hset[rangeHeapName(r)] = true
					}
				}
			}
		}
	}
	for c := range cset {
		cells = append(cells, c)
	}
	sort.Slice(cells, func(i, j int) bool { return cells[i].id < cells[j].id })
	for h := range hset {
		heaps = append(heaps, h)
	}
	sort.Strings(heaps)
	return
}

// classifyWrite determines which cell or heap a store through addr changes.
func (u *Unit) classifyWrite(fr *Frame, addr ssa.Value, cset map[*Cell]bool, hset map[string]bool, all *bool) {
	switch a := addr.(type) {
	case *ssa.Alloc:
		if c, ok := fr.cells[a]; ok {
			cset[c] = true
			return
		}
		if !allocIsCell(a) {
			u.heapOfPointee(a.Type().(*types.Pointer).Elem(), hset)
			return
		}
		// cell not created yet (allocation inside the loop)
		return
	case *ssa.FieldAddr:
		pt := a.X.Type().Underlying().(*types.Pointer).Elem()
		if u.rootIsLocalAggregate(fr, a.X) {
			u.classifyWrite(fr, a.X, cset, hset, all)
			return
		}
		st, key, ok := u.transparentStruct(pt)
		if !ok {
			return // opaque struct: not modelled
		}
		hset[u.fieldHeapName(key, st, a.Field)] = true
	case *ssa.IndexAddr:
		switch t := a.X.Type().Underlying().(type) {
		case *types.Slice:
			hset["M:"+u.typeKey(t.Elem())] = true
		case *types.Pointer: // pointer to array
			if u.rootIsLocalAggregate(fr, a.X) {
				u.classifyWrite(fr, a.X, cset, hset, all)
				return
			}
			hset["B:"+u.typeKey(t.Elem())] = true
		}
	case *ssa.Global:
		hset["G:"+a.Pkg.Pkg.Path()+"."+a.Name()] = true
	default:
		// pointer obtained from elsewhere (parameter, load, call)
		if pt, ok := addr.Type().Underlying().(*types.Pointer); ok {
			u.heapOfPointee(pt.Elem(), hset)
			return
		}
		*all = true
	}
}

func (u *Unit) heapOfPointee(elem types.Type, hset map[string]bool) {
	if st, key, ok := u.transparentStruct(elem); ok {
		for i := 0; i < st.NumFields(); i++ {
			hset[u.fieldHeapName(key, st, i)] = true
		}
		return
	}
	hset["B:"+u.typeKey(elem)] = true
}

// rootIsLocalAggregate: the address is inside a local cell (struct or array variable).
func (u *Unit) rootIsLocalAggregate(fr *Frame, v ssa.Value) bool {
	switch a := v.(type) {
	case *ssa.Alloc:
		return allocIsCell(a)
	case *ssa.FieldAddr:
		if _, ok := a.X.(*ssa.Alloc); ok {
			return u.rootIsLocalAggregate(fr, a.X)
		}
		if _, ok := a.X.(*ssa.FieldAddr); ok {
			return u.rootIsLocalAggregate(fr, a.X)
		}
		if _, ok := a.X.(*ssa.IndexAddr); ok {
			return u.rootIsLocalAggregate(fr, a.X)
		}
	case *ssa.IndexAddr:
		if _, ok := a.X.Type().Underlying().(*types.Pointer); ok {
			return u.rootIsLocalAggregate(fr, a.X)
		}
	}
	return false
}

// autoInvariants: counters that only move one way keep their bound; range indices stay in range.
func (u *Unit) autoInvariants(fr *Frame, li *loopInfo, pre, st *State, reach Term) {
	type dir struct{ up, down, other bool }
	dirs := map[*Cell]*dir{}
	for b := range li.blocks {
		for _, in := range b.Instrs {
			s, ok := in.(*ssa.Store)
			if !ok {
				continue
			}
			al, ok := s.Addr.(*ssa.Alloc)
			if !ok {
				continue
			}
			c, ok := fr.cells[al]
			if !ok {
				continue
			}
			d := dirs[c]
			if d == nil {
				d = &dir{}
				dirs[c] = d
			}
			bo, ok := s.Val.(*ssa.BinOp)
			if !ok {
				d.other = true
				continue
			}
			ld, ok := bo.X.(*ssa.UnOp)
			k, isConst := bo.Y.(*ssa.Const)
			if !ok || ld.Op != token.MUL || ld.X != al || !isConst || k.Value == nil || k.Value.Kind() != constant.Int {
				d.other = true
				continue
			}
			sign := constant.Sign(k.Value)
			switch {
			case bo.Op == token.ADD && sign >= 0, bo.Op == token.SUB && sign <= 0:
				d.up = true
			case bo.Op == token.ADD && sign <= 0, bo.Op == token.SUB && sign >= 0:
				d.down = true
			default:
				d.other = true
			}
		}
	}
	for c, d := range dirs {
		if d.other || (d.up && d.down) {
			continue
		}
		pv, ok1 := pre.cells[c]
		nv, ok2 := st.cells[c]
		if !ok1 || !ok2 || pv.T.Sort != "Int" || nv.T.Sort != "Int" {
			continue
		}
		if d.up {
			u.assume(reach, app("Bool", ">=", nv.T, pv.T))
		} else {
			u.assume(reach, app("Bool", "<=", nv.T, pv.T))
		}
		u.note("auto-invariant: monotone counter keeps its entry bound (sound by construction of the loop's stores)")
	}
	// range over slice/string/array: rangeindex < length
	h := li.header
	for _, in := range h.Instrs {
		bo, ok := in.(*ssa.BinOp)
		if !ok || bo.Op != token.LSS {
			continue
		}
		inc, ok := bo.X.(*ssa.BinOp)
		if !ok || inc.Op != token.ADD {
			continue
		}
		ld, ok := inc.X.(*ssa.UnOp)
		if !ok {
			continue
		}
		al, ok := ld.X.(*ssa.Alloc)
		if !ok || al.Comment != "rangeindex" {
			continue
		}
		c := fr.cells[al]
		if c == nil {
			continue
		}
		if lv, ok := fr.vals[bo.Y]; ok && lv.T.Sort == "Int" {
			u.assume(reach, app("Bool", "<", st.cells[c].T, app("Int", "imax", lv.T, intLit(0))))
			u.assume(reach, app("Bool", ">=", st.cells[c].T, intLit(-1)))
		}
	}
}

// ---- fresh values -------------------------------------------------------------------------------

func (u *Unit) freshVal(st *State, name string, t types.Type) Val {
	if tup, ok := t.(*types.Tuple); ok {
		v := Val{Typ: t}
		for i := 0; i < tup.Len(); i++ {
			v.Tup = append(v.Tup, u.freshVal(st, fmt.Sprintf("%s_%d", name, i), tup.At(i).Type()))
		}
		return v
	}
	term := u.fresh(name, u.sortOf(t))
	u.assume(tTrue, u.typeInv(st, term, t))
	return Val{T: term, Typ: t}
}

// ---- blocks -------------------------------------------------------------------------------------

func (u *Unit) execBlock(fr *Frame, b *ssa.BasicBlock, st *State, reach Term) {
	for _, in := range b.Instrs {
		if fr.parent == nil {
			u.curBlock, u.scopeBlk = b, b
		}
		if _, ok := in.(*ssa.Phi); ok {
			continue
		}
		u.curWhere = u.where(in)
		if done := u.execInstr(fr, in, st, &reach); done {
			fr.out[b] = nil
			return
		}
	}
	fr.reach[b] = reach
	fr.out[b] = st
	// back edges leaving this block
	for _, s := range b.Succs {
		if isBackEdge(b, s) {
			if li := fr.loopOf[s]; li != nil {
				u.backEdge(fr, li, st, u.edgeCond(fr, b, s))
			}
		}
	}
}

func (u *Unit) value(fr *Frame, v ssa.Value) Val {
	if val, ok := fr.vals[v]; ok {
		return val
	}
	switch x := v.(type) {
	case *ssa.Const:
		return u.constVal(x)
	case *ssa.Global:
		return Val{Loc: &Loc{Kind: LGlobal, Global: x, Elem: x.Type().(*types.Pointer).Elem()}, Typ: x.Type()}
	case *ssa.Function:
		f := "fn_" + mangle(funcName(x))
		u.declareOnce(f, fmt.Sprintf("(declare-const %s Int)", f))
		u.declareOnce(f+"!", fmt.Sprintf("(assert (> %s 0))", f))
		return Val{T: Term{f, "Int"}, Typ: x.Type(), Fn: x}
	case *ssa.Builtin:
		return Val{Typ: x.Type()}
	case *ssa.FreeVar:
		if val, ok := fr.vals[x]; ok {
			return val
		}
		// closure verified on its own: free variables are unknown pointers to captured variables
		val := u.freshVal(fr.entry, "free_"+x.Name(), x.Type())
		fr.vals[x] = val
		return val
	}
	u.unsupportedf("value %T %s not defined (in %s)", v, v.Name(), fr.fn.Name())
	return Val{}
}

func (u *Unit) constVal(c *ssa.Const) Val {
	t := c.Type()
	if c.Value == nil {
		// zero value / nil
		if tup, ok := t.(*types.Tuple); ok {
			_ = tup
			return Val{Typ: t}
		}
		return Val{T: u.zeroOf(t), Typ: t}
	}
	switch c.Value.Kind() {
	case constant.Bool:
		if constant.BoolVal(c.Value) {
			return Val{T: tTrue, Typ: t}
		}
		return Val{T: tFalse, Typ: t}
	case constant.Int:
		if u.sortOf(t) == "Opaque" { // float typed integer constant
			return Val{T: u.fresh("fconst", "Opaque"), Typ: t}
		}
		return Val{T: bigLit(c.Value.ExactString()), Typ: t}
	case constant.String:
		return Val{T: u.strLit(constant.StringVal(c.Value)), Typ: t}
	}
	return Val{T: u.fresh("const", u.sortOf(t)), Typ: t}
}

func (u *Unit) strLit(s string) Term {
	if s == "" {
		return Term{"bempty", "Bytes"}
	}
	if t, ok := u.strLits[s]; ok {
		return t
	}
	n := fmt.Sprintf("str_%d_%s", len(u.strLits), mangle(truncate(s, 16)))
	u.decls = append(u.decls, fmt.Sprintf("(declare-const %s Bytes)", n))
	u.decls = append(u.decls, fmt.Sprintf("(assert (= (blen %s) %d))", n, len(s)))
	if len(s) <= 80 {
		var parts []string
		for i := 0; i < len(s); i++ {
			parts = append(parts, fmt.Sprintf("(= (bat %s %d) %d)", n, i, s[i]))
		}
		if len(parts) == 1 {
			u.decls = append(u.decls, "(assert "+parts[0]+")")
		} else {
			u.decls = append(u.decls, "(assert (and "+strings.Join(parts, " ")+"))")
		}
	}
	t := Term{n, "Bytes"}
	u.strLits[s] = t
	return t
}

func truncate(s string, n int) string {
	if len(s) > n {
		return s[:n]
	}
	return s
}

// ---- loads and stores ---------------------------------------------------------------------------

func (u *Unit) pointerLoc(st *State, v Val, ptrType types.Type) *Loc {
	if v.Loc != nil {
		return v.Loc
	}
	pt, ok := ptrType.Underlying().(*types.Pointer)
	if !ok {
		u.unsupportedf("pointerLoc on %s", ptrType)
	}
	elem := pt.Elem()
	if sst, key, ok := u.transparentStruct(elem); ok {
		return &Loc{Kind: LStruct, Base: v.T, ST: sst, SKey: key, Elem: elem}
	}
	if _, isStruct := elem.Underlying().(*types.Struct); isStruct {
		return &Loc{Kind: LOpaque, Elem: elem}
	}
	return &Loc{Kind: LBox, Base: v.T, Elem: elem}
}

func (u *Unit) load(st *State, l *Loc) Val {
	switch l.Kind {
	case LCell:
		v, ok := st.cells[l.Cell]
		if !ok {
			v = Val{T: u.zeroOf(l.Cell.Typ), Typ: l.Cell.Typ}
			st.cells[l.Cell] = v
		}
		return v
	case LField:
		h := u.heap(st, u.fieldHeapName(l.SKey, l.ST, l.Field), arraySort("Int", u.sortOf(l.Elem)))
		return Val{T: sel(h, l.Base), Typ: l.Elem}
	case LElem:
		_, h := u.memHeap(st, l.Elem)
		return Val{T: sel(sel(h, l.Base), l.Index), Typ: l.Elem}
	case LBox:
		_, h := u.boxHeap(st, l.Elem)
		return Val{T: sel(h, l.Base), Typ: l.Elem}
	case LStruct:
		var fs []Term
		for i := 0; i < l.ST.NumFields(); i++ {
			h := u.heap(st, u.fieldHeapName(l.SKey, l.ST, i), arraySort("Int", u.sortOf(l.ST.Field(i).Type())))
			fs = append(fs, sel(h, l.Base))
		}
		return Val{T: u.structMk(l.ST, l.SKey, fs), Typ: l.Elem}
	case LSub:
		pv := u.load(st, l.Parent)
		if pv.T.Sort == "Opaque" {
			return Val{T: u.fresh("opq", u.sortOf(l.Elem)), Typ: l.Elem}
		}
		if l.IsIdx {
			return Val{T: sel(pv.T, l.Index), Typ: l.Elem}
		}
		return Val{T: u.structGet(pv.T, l.ST, l.SKey, l.Field), Typ: l.Elem}
	case LGlobal:
		return u.loadGlobal(st, l.Global)
	case LOpaque:
		u.note("read through an address inside an unmodelled (external) struct yields an unknown value")
		return u.freshVal(st, "opq", l.Elem)
	}
	panic("load")
}

func (u *Unit) store(st *State, l *Loc, v Val) {
	switch l.Kind {
	case LCell:
		st.cells[l.Cell] = v
	case LField:
		name := u.fieldHeapName(l.SKey, l.ST, l.Field)
		h := u.heap(st, name, arraySort("Int", u.sortOf(l.Elem)))
		st.heaps[name] = u.def(sto(h, l.Base, u.termOf(v)))
	case LElem:
		name, h := u.memHeap(st, l.Elem)
		st.heaps[name] = u.def(sto(h, l.Base, sto(sel(h, l.Base), l.Index, u.termOf(v))))
	case LBox:
		name, h := u.boxHeap(st, l.Elem)
		st.heaps[name] = u.def(sto(h, l.Base, u.termOf(v)))
	case LStruct:
		t := u.termOf(v)
		for i := 0; i < l.ST.NumFields(); i++ {
			name := u.fieldHeapName(l.SKey, l.ST, i)
			h := u.heap(st, name, arraySort("Int", u.sortOf(l.ST.Field(i).Type())))
			st.heaps[name] = u.def(sto(h, l.Base, u.structGet(t, l.ST, l.SKey, i)))
		}
	case LSub:
		pv := u.load(st, l.Parent)
		if pv.T.Sort == "Opaque" {
			return
		}
		var nt Term
		if l.IsIdx {
			nt = sto(pv.T, l.Index, u.termOf(v))
		} else {
			var fs []Term
			for i := 0; i < l.ST.NumFields(); i++ {
				if i == l.Field {
					fs = append(fs, u.termOf(v))
				} else {
					fs = append(fs, u.structGet(pv.T, l.ST, l.SKey, i))
				}
			}
			nt = u.structMk(l.ST, l.SKey, fs)
		}
		u.store(st, l.Parent, Val{T: u.def(nt), Typ: l.Parent.Elem})
	case LGlobal:
		name := "G:" + l.Global.Pkg.Pkg.Path() + "." + l.Global.Name()
		u.heap(st, name, u.sortOf(l.Elem))
		st.heaps[name] = u.termOf(v)
	case LOpaque:
	}
}

// termOf forces a value into a term (addresses become pointer terms where possible).
func (u *Unit) termOf(v Val) Term {
	if v.Loc != nil {
		t, ok := u.locToTerm(v)
		if !ok {
			u.note("address of a local variable stored or passed on: abstracted to an unknown pointer")
			return u.fresh("addr", "Int")
		}
		return t
	}
	if v.T.S == "" {
		if v.Typ != nil {
			return u.fresh("unk", u.sortOf(v.Typ))
		}
		u.unsupportedf("value without term")
	}
	return v.T
}

func (u *Unit) loadGlobal(st *State, g *ssa.Global) Val {
	if v, ok := u.globalConst(st, g); ok {
		return v
	}
	elem := g.Type().(*types.Pointer).Elem()
	name := "G:" + g.Pkg.Pkg.Path() + "." + g.Name()
	sort := u.sortOf(elem)
	if types.Identical(elem, types.Universe.Lookup("error").Type()) {
		// package-level error variables are distinct non-nil constants (never reassigned: assumption)
		if t, ok := u.globErr[name]; ok {
			return Val{T: t, Typ: elem}
		}
		n := "err_" + mangle(g.Pkg.Pkg.Path()+"."+g.Name())
		u.decls = append(u.decls, fmt.Sprintf("(declare-const %s Iface)", n))
		u.decls = append(u.decls, fmt.Sprintf("(assert (= (itag %s) %d))", n, 1000+len(u.globErr)))
		t := Term{n, "Iface"}
		u.globErr[name] = t
		u.note("package-level error variables are distinct non-nil constants")
		return Val{T: t, Typ: elem}
	}
	h := u.heap(st, name, sort)
	if init, ok := u.heapInit[name]; ok && init.S == h.S && u.entryAlloc.S != "" {
		// still the value the global had at entry: what it refers to existed at entry (it cannot alias
		// anything this function allocates)
		es := &State{alloc: u.entryAlloc}
		u.assume(tTrue, u.typeInv(es, h, elem))
	}
	return Val{T: h, Typ: elem}
}
