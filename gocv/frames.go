package main

import (
	"fmt"
	"sort"
	"strings"
)

// checkFrame generates, for a verified function with a frame clause, one obligation per heap the
// function may have changed and that the frame does not list: at every reference that existed at
// entry the heap is unchanged (fresh allocations are always allowed).
func (u *Unit) checkFrame(ct *Contract, r retInfo, alloc0 Term, penv *Env) {
	if !ct.HasFrame {
		return
	}
	if ct.FrameTrusted {
		u.note("frame of " + u.FnName + " is taken from a trusted declaration and not checked against its body")
		return
	}
	allowed := map[string]bool{}
	except := map[string][]Term{} // heap -> references at which it may change (map:K|V@expr)
	var excl map[string]bool // "~T.f" items: everything may change except these
	for _, f := range ct.Frame {
		if strings.HasPrefix(f, "~") {
			if excl == nil {
				excl = map[string]bool{}
			}
			for _, h := range u.resolveFrameItem(ct, strings.TrimSpace(f[1:])) {
				excl[h] = true
				if _, ok := r.st.heaps[h]; !ok {
					if _, pend := r.st.pending[h]; pend || r.st.epoch != "" {
						u.ensureHeapByName(r.st, h)
					}
				}
			}
			continue
		}
		if strings.HasPrefix(f, "map:") && strings.Contains(f, "@") {
			at := strings.Index(f, "@")
			ex, err := parseSpec(f[at+1:])
			if err != nil {
				u.specFail("frame item %s: %v", f, err)
				return
			}
			oenv := *penv
			oenv.st = penv.old
			oenv.inOld = true
			v := u.eval(ex, &oenv)
			for _, h := range u.resolveFrameItem(ct, f) {
				except[h] = append(except[h], v.T)
			}
			continue
		}
		for _, h := range u.resolveFrameItem(ct, f) {
			allowed[h] = true
		}
		if (strings.HasPrefix(f, "*") && !strings.HasPrefix(f, "*.")) || strings.HasPrefix(f, "@") {
			return // frames naming pointees of parameters are not checked yet (reported as assumed)
		}
	}
	var names []string
	for n := range u.heapSort {
		names = append(names, n)
	}
	// heaps a callee's frame names and nothing here has looked at
	for n, tag := range r.st.pending {
		if tag == "" {
			continue // exempt from every call so far: still the entry version
		}
		if _, known := u.heapSort[n]; known {
			if _, ok := r.st.heaps[n]; !ok {
				u.heapNow(r.st, n)
			}
		} else if !allowed[n] && len(except[n]) == 0 && (excl == nil || excl[n]) {
			u.oblige("frame", r.reach, tFalse, "frame", shortHeap(n), "heap "+n+" may be changed by a callee and is not in the frame")
		}
	}
	sort.Strings(names)
	for _, n := range names {
		if allowed[n] || strings.HasPrefix(n, "RV:") {
			continue // RV: ghost state of a range loop
		}
		if excl != nil && !excl[n] {
			continue
		}
		init := u.heapInit[n]
		cur, ok := r.st.heaps[n]
		if !ok || cur.S == init.S {
			continue
		}
		var f Term
		s := u.heapSort[n]
		switch {
		case strings.HasPrefix(s, "(Array Iface "):
			// ghost state keyed by interface values (wildcard ghosts): unchanged for every key whose referent
			// existed at entry; the ghost state of an object allocated here belongs to the allocation
			f = Term{fmt.Sprintf("(forall ((r Iface)) (=> (< (irefof r) %s) (= %s %s)))", alloc0.S, sel(cur, Term{"r", "Iface"}).S, sel(init, Term{"r", "Iface"}).S), "Bool"}
		case strings.HasPrefix(n, "G:") || !strings.HasPrefix(s, "(Array Int "):
			f = eq2(cur, init)
		default:
			cond := fmt.Sprintf("(and (<= 0 r) (< r %s)", alloc0.S)
			for _, e := range except[n] {
				cond += fmt.Sprintf(" (not (= r %s))", e.S)
			}
			cond += ")"
			f = Term{fmt.Sprintf("(forall ((r Int)) (=> %s (= %s %s)))", cond, sel(cur, Term{"r", "Int"}).S, sel(init, Term{"r", "Int"}).S), "Bool"}
		}
		u.oblige("frame", r.reach, f, "frame", shortHeap(n), "heap "+n+" is not in the frame: unchanged at every pre-existing reference")
	}
}

func shortHeap(n string) string {
	n = strings.ReplaceAll(n, "github.com/33cn/chain33/", "")
	return n
}
